import AmcVerif.Lemmas.VecOpsE
import AmcVerif.Bridge.VecLawsU8
/-! Instance of `MoveLaws` (Lemmas/VecOpsE.lean) for the *generated* SmallVectorBase members `SVB.move_construct`,
`SVB.move_assign`, `SVB.swap_impl` of size type U8: the effect lists they emit, in terms of the decoded words. Same uniform
script as Bridge/SmallLawsU8.lean (unfold the generated definition, split every `if`, case split on the representation invariant,
close the arithmetic with `omega`); `moveAssign_steal_effs` and `moveAssign_release_effs` of that file are reused as they are.
Written so that replacing `U8` textually by another size-type tag gives the other instances. -/
namespace AmcVerif.Bridge.U8
open AmcVerif AmcVerif.Gen.U8

local macro "leaf_auto" : tactic =>
  `(tactic| ((try simp only [SRep, kMax, SVB.capacity, SVB.size, SVB.isSmall, decide_eq_true_eq, Bool.and_eq_true, Bool.not_eq_true',
              decide_eq_false_iff_not, ne_eq, decide_not, Bool.not_eq_eq_eq_not, Bool.not_true, Bool.not_false,
              Bool.or_eq_true] at *)
             <;> (repeat' split)
             <;> (first | omega | (simp_all <;> omega) | simp_all)))

/-- move construction: an inline source is relocated into the inline storage of the new object, a heap-backed source only hands
    over its pointer (which overlays the inline storage of the new object) -/
theorem moveConstruct_effs (N : Nat) (_hN : N < kMax) (t o : VB) (ho : SRep N kMax o) :
    (SVB.move_construct t o N).2.2 =
      if SVB.isSmall o then [Eff.relocN (PtrV.inl 1) (SVB.size o) (PtrV.inl 0)] else [Eff.setDyn 0] := by
  unfold SVB.move_construct
  repeat' split
  all_goals (try dsimp only)
  all_goals
    try
      unfold SRep at ho
      rcases ho with ⟨ho1, ho2⟩ | ⟨ho1, ho2⟩ | ⟨ho1, ho2⟩
      all_goals leaf_auto

/-- move assignment of an inline source into a heap-backed target that is large enough: the elements are moved into the heap
    buffer, which is kept -/
theorem moveAssign_keep_effs (N : Nat) (hN : N < kMax) (hN0 : 0 < N) (t o : VB) (ht : SRep N kMax t) (ho : SRep N kMax o)
    (hoS : SVB.isSmall o = true) (htL : SVB.isSmall t = false) (hcap : SVB.size o ≤ SVB.capacity t) :
    (SVB.move_assign t o N).2.2 = [Eff.moveN (PtrV.inl 1) (SVB.size o) t.dyn (SVB.size t)] := by
  unfold SVB.move_assign
  repeat' split
  all_goals
    dsimp only
    unfold SRep at ht ho
    rcases ht with ⟨ht1, ht2⟩ | ⟨ht1, ht2⟩ | ⟨ht1, ht2⟩ <;> rcases ho with ⟨ho1, ho2⟩ | ⟨ho1, ho2⟩ | ⟨ho1, ho2⟩
    all_goals leaf_auto

/-- swap: inline/inline exchanges the elements; inline/heap relocates the inline elements into the other object's inline storage
    and hands the pointer over; heap/heap only exchanges the pointers -/
theorem swapImpl_effs (N : Nat) (hN : N < kMax) (t o : VB) (ht : SRep N kMax t) (ho : SRep N kMax o) :
    (SVB.swap_impl t o).2.2 =
      if SVB.isSmall t then
        (if SVB.isSmall o then [Eff.swapDeep (PtrV.inl 0) (SVB.size t) (PtrV.inl 1) (SVB.size o)]
         else [Eff.relocN (PtrV.inl 0) (SVB.size t) (PtrV.inl 1), Eff.setDyn 0])
      else
        (if SVB.isSmall o then [Eff.relocN (PtrV.inl 1) (SVB.size o) (PtrV.inl 0), Eff.setDyn 1]
         else [Eff.setDyn 0, Eff.setDyn 1]) := by
  unfold SVB.swap_impl
  repeat' split
  all_goals (try dsimp only)
  all_goals
    try
      unfold SRep at ht ho
      rcases ht with ⟨ht1, ht2⟩ | ⟨ht1, ht2⟩ | ⟨ht1, ht2⟩ <;> rcases ho with ⟨ho1, ho2⟩ | ⟨ho1, ho2⟩ | ⟨ho1, ho2⟩
      all_goals leaf_auto

/-- the generated SmallVectorBase members of this size type emit the effect lists `MoveLaws` states -/
theorem svb_moveLaws (N : Nat) (hN : N < kMax) (hN0 : 0 < N) : MoveLaws svbOps N where
  moveConstructEffs := moveConstruct_effs N hN
  moveAssignStealEffs := moveAssign_steal_effs N hN hN0
  moveAssignKeepEffs := moveAssign_keep_effs N hN hN0
  moveAssignReleaseEffs := moveAssign_release_effs N hN hN0
  swapEffs := swapImpl_effs N hN

/-- `MoveLaws` for a configuration over the generated U8 members -/
theorem small_moveLaws (cfg : Cfg) (hops : cfg.ops = svbOps) (hN : cfg.n < kMax) (hN0 : 0 < cfg.n) : MoveLaws cfg.ops cfg.n :=
  hops ▸ svb_moveLaws cfg.n hN hN0

/-- the word laws for a configuration over the generated U8 members -/
theorem small_wordLaws (cfg : Cfg) (hops : cfg.ops = svbOps) (hN : cfg.n < kMax) (hN0 : 0 < cfg.n) : SmallLaws cfg.ops cfg.n :=
  hops ▸ svb_laws cfg.n hN hN0

/-- `SmallVector(SmallVector&&)` over the generated U8 members -/
theorem moveConstruct_U8 (α : Type) (cfg : Cfg) (hfl : cfg.flavour = .small) (hops : cfg.ops = svbOps) (hN : cfg.n < kMax)
    (hN0 : 0 < cfg.n) (m : Mem α) (c d : Nat) (ys : List α) (wd : VB) (hne : c ≠ d) (hc : c < m.ws.length)
    (hraw : m.buf (.inl c) = some (raws cfg.n)) (hd : VRepW cfg (SOkW cfg.ops cfg.n) d m ys wd) :
    Post (moveConstruct cfg c d) m (MoveCtorPost cfg (SOkW cfg.ops cfg.n) c d m ys wd) :=
  moveConstruct_small (P := fun _ => True) hfl (small_wordLaws cfg hops hN hN0) (small_moveLaws cfg hops hN hN0) m c d ys wd hne hc
    hraw hd

/-- `operator=(SmallVector&&)` over the generated U8 members -/
theorem moveAssign_U8 (α : Type) (cfg : Cfg) (hfl : cfg.flavour = .small) (hops : cfg.ops = svbOps) (hN : cfg.n < kMax)
    (hN0 : 0 < cfg.n) (m : Mem α) (c d : Nat) (xs ys : List α) (wc wd : VB) (hne : c ≠ d)
    (hc : VRepW cfg (SOkW cfg.ops cfg.n) c m xs wc) (hd : VRepW cfg (SOkW cfg.ops cfg.n) d m ys wd)
    (hdisj : regionOf cfg c wc ≠ regionOf cfg d wd ∨ (cfg.ops.capacity wc = 0 ∧ cfg.ops.capacity wd = 0)) :
    Post (moveAssign cfg c d) m (MoveAssignPost cfg (SOkW cfg.ops cfg.n) c d m ys wc) :=
  moveAssign_small (P := fun _ => True) hfl (small_wordLaws cfg hops hN hN0) (small_moveLaws cfg hops hN hN0) m c d xs ys wc wd hne
    hc hd hdisj

/-- `swap(SmallVector&)` over the generated U8 members -/
theorem swapSame_U8 (α : Type) (cfg : Cfg) (hfl : cfg.flavour = .small) (hops : cfg.ops = svbOps) (hN : cfg.n < kMax)
    (hN0 : 0 < cfg.n) (m : Mem α) (c d : Nat) (xs ys : List α) (wc wd : VB) (hne : c ≠ d)
    (hc : VRepW cfg (SOkW cfg.ops cfg.n) c m xs wc) (hd : VRepW cfg (SOkW cfg.ops cfg.n) d m ys wd) :
    Post (swapSame cfg c d) m (SwapPost cfg (SOkW cfg.ops cfg.n) c d m xs ys) :=
  swapSame_small (P := fun _ => True) hfl (small_wordLaws cfg hops hN hN0) (small_moveLaws cfg hops hN hN0) m c d xs ys wc wd hne
    hc hd

end AmcVerif.Bridge.U8
