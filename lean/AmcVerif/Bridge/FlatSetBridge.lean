import AmcVerif.Gen.FlatSetGen
import AmcVerif.Model.Sets
/-! Tie between `include/amc/flatset.hpp` and the hand-written FlatSet model (`Model/Sets.lean`).

`Gen/FlatSetGen.lean` is regenerated from the header by `translator/flatset2lean.py` on every run.  The theorems below state
that each generated function (a) never reaches undefined behaviour (its result is `some _`) and (b) computes exactly what
the hand-written model computes: content, returned index / flag, and number of comparator calls.  No hypothesis on the
comparator or on the order of the list is needed; the only hypothesis is `h ≤ l.length` on an iterator argument
(the precondition `begin() <= hint <= end()` of the C++ function, its `assert`).  A change of the decision logic in the
header changes the generated definitions and breaks these proofs. -/
namespace AmcVerif.Bridge.FlatSet
open AmcVerif AmcVerif.Sets
variable {α : Type}

/-- the halving loop stays inside its window (unconditionally) -/
theorem lowerBound_range (lt : α → α → Bool) (l : List α) (v : α) (k : Nat) :
    ∀ first len, len < 2 ^ k →
      first ≤ (lowerBound lt l v first len).1 ∧ (lowerBound lt l v first len).1 ≤ first + len := by
  induction k with
  | zero => intro first len h; have : len = 0 := by omega
            subst this; simp [lowerBound]
  | succ k ih =>
    intro first len h
    cases len with
    | zero => simp [lowerBound]
    | succ n =>
      rw [lowerBound]
      simp only
      split
      · split
        · have := ih (first + (n+1)/2 + 1) (n + 1 - (n+1)/2 - 1) (by rw [Nat.pow_succ] at h; omega)
          simp only; omega
        · have := ih first ((n+1)/2) (by rw [Nat.pow_succ] at h; omega)
          simp only; omega
      · simp

theorem lowerBound_ge (lt : α → α → Bool) (l : List α) (v : α) (first len : Nat) :
    first ≤ (lowerBound lt l v first len).1 :=
  (lowerBound_range lt l v len first len Nat.lt_two_pow_self).1

theorem lowerBound_le (lt : α → α → Bool) (l : List α) (v : α) (first len : Nat) :
    (lowerBound lt l v first len).1 ≤ first + len :=
  (lowerBound_range lt l v len first len Nat.lt_two_pow_self).2

/-- an index below the length has an element -/
theorem getElem?_of_lt (l : List α) (i : Nat) (h : i < l.length) : ∃ x, l[i]? = some x :=
  ⟨l[i], List.getElem?_eq_getElem h⟩

/-! ### lookups -/

theorem lower_bound_eq (lt : α → α → Bool) (l : List α) (v : α) :
    Gen.FlatSet.lower_bound lt l v = some (lowerBound lt l v 0 l.length) := by
  simp [Gen.FlatSet.lower_bound]

theorem upper_bound_eq (lt : α → α → Bool) (l : List α) (v : α) :
    Gen.FlatSet.upper_bound lt l v = some (upperBound lt l v 0 l.length) := by
  simp [Gen.FlatSet.upper_bound]

/-- the iterator returned by `find`: `end()` when the model says "absent" -/
def findIdx (l : List α) (r : Option Nat) : Nat := match r with | some i => i | none => l.length

theorem find_eq (lt : α → α → Bool) (l : List α) (k : α) :
    Gen.FlatSet.find lt l k = some (findIdx l (findC lt l k).1, (findC lt l k).2) := by
  have hle := lowerBound_le lt l k 0 l.length
  unfold Gen.FlatSet.find findC
  rw [lower_bound_eq]
  generalize lowerBound lt l k 0 l.length = p at hle
  obtain ⟨i, c⟩ := p
  simp only at hle ⊢
  by_cases hi : i = l.length
  · subst hi; simp [findIdx]
  · obtain ⟨x, hx⟩ := getElem?_of_lt l i (by omega)
    simp only [hi, hx, if_false]
    cases lt k x <;> simp [findIdx]

/-- the model's `find` designates an existing element -/
theorem findC_some_lt (lt : α → α → Bool) (l : List α) (k : α) (i : Nat) (h : (findC lt l k).1 = some i) :
    i < l.length := by
  unfold findC at h
  generalize lowerBound lt l k 0 l.length = p at h
  obtain ⟨j, c⟩ := p
  simp only at h
  cases hx : l[j]? with
  | none => simp [hx] at h
  | some x =>
    have hj : j < l.length := by
      cases Nat.lt_or_ge j l.length with
      | inl hlt => exact hlt
      | inr hge => rw [List.getElem?_eq_none hge] at hx; cases hx
    cases hk : lt k x <;> simp [hx, hk] at h
    omega

theorem contains_eq (lt : α → α → Bool) (l : List α) (k : α) :
    Gen.FlatSet.contains lt l k = some ((findC lt l k).1.isSome, (findC lt l k).2) := by
  unfold Gen.FlatSet.contains
  rw [find_eq]
  cases hf : (findC lt l k).1 with
  | none => simp [findIdx]
  | some i =>
    have := findC_some_lt lt l k i hf
    have hne : ¬ (i = l.length) := by omega
    simp [findIdx, hne]

theorem count_eq (lt : α → α → Bool) (l : List α) (k : α) :
    Gen.FlatSet.count lt l k = some ((if (findC lt l k).1.isSome then 1 else 0), (findC lt l k).2) := by
  unfold Gen.FlatSet.count
  rw [contains_eq]
  cases (findC lt l k).1 <;> simp

theorem equal_range_eq (lt : α → α → Bool) (l : List α) (k : α) :
    Gen.FlatSet.equal_range lt l k
      = some ((findIdx l (findC lt l k).1, (match (findC lt l k).1 with | some i => i + 1 | none => l.length)),
              (findC lt l k).2) := by
  unfold Gen.FlatSet.equal_range
  rw [find_eq]
  cases hf : (findC lt l k).1 with
  | none => simp [findIdx]
  | some i =>
    have := findC_some_lt lt l k i hf
    have hne : ¬ (i = l.length) := by omega
    simp [findIdx, hne]

/-! ### `erase(key)` -/

theorem erase_eq (lt : α → α → Bool) (l : List α) (k : α) :
    Gen.FlatSet.erase lt l k = some (eraseKey lt l k) := by
  unfold Gen.FlatSet.erase eraseKey
  rw [find_eq]
  generalize hf : findC lt l k = p
  obtain ⟨r, c⟩ := p
  cases r with
  | none => simp [findIdx]
  | some i =>
    have := findC_some_lt lt l k i (by rw [hf])
    have hne : ¬ (i = l.length) := by omega
    simp [findIdx, hne]

/-! ### `insert(value)` -/

/-- the result of the model's `insert_val` in the shape of the generated functions: (content, (iterator, inserted), calls) -/
def insertValR (lt : α → α → Bool) (l : List α) (v : α) : List α × (Nat × Bool) × Nat :=
  ((insertValC lt l v).1, ((insertValC lt l v).2.1, (insertValC lt l v).2.2.1), (insertValC lt l v).2.2.2)

theorem insert_val_eq (lt : α → α → Bool) (l : List α) (v : α) :
    Gen.FlatSet.insert_val lt l v = some (insertValR lt l v) := by
  have hle := lowerBound_le lt l v 0 l.length
  unfold Gen.FlatSet.insert_val insertValR insertValC
  generalize lowerBound lt l v 0 l.length = p at hle
  obtain ⟨i, c⟩ := p
  simp only at hle ⊢
  by_cases hi : i = l.length
  · subst hi; simp
  · obtain ⟨x, hx⟩ := getElem?_of_lt l i (by omega)
    simp only [hi, hx, if_false]
    cases lt v x <;> simp

theorem insert_val_rv_eq (lt : α → α → Bool) (l : List α) (v : α) :
    Gen.FlatSet.insert_val_rv lt l v = some (insertValR lt l v) := by
  have hle := lowerBound_le lt l v 0 l.length
  unfold Gen.FlatSet.insert_val_rv insertValR insertValC
  generalize lowerBound lt l v 0 l.length = p at hle
  obtain ⟨i, c⟩ := p
  simp only at hle ⊢
  by_cases hi : i = l.length
  · subst hi; simp
  · obtain ⟨x, hx⟩ := getElem?_of_lt l i (by omega)
    simp only [hi, hx, if_false]
    cases lt v x <;> simp

theorem insert_eq (lt : α → α → Bool) (l : List α) (v : α) :
    Gen.FlatSet.insert lt l v = some (insertValR lt l v) := by
  unfold Gen.FlatSet.insert
  rw [insert_val_eq]

theorem insert_rv_eq (lt : α → α → Bool) (l : List α) (v : α) :
    Gen.FlatSet.insert_rv lt l v = some (insertValR lt l v) := by
  unfold Gen.FlatSet.insert_rv
  rw [insert_val_rv_eq]

/-! ### `insert(hint, value)`

Hypothesis `h ≤ l.length`: the precondition of the C++ function (`assert(hint >= b && hint <= e)`).  Without it the generated
function dereferences `hint` outside `[begin, end)` (result `none`) while the hand-written model treats `l[h]? = none` as
`hint == end()`. -/

theorem insert_hint_eq (lt : α → α → Bool) (l : List α) (h : Nat) (hh : h ≤ l.length) (v : α) :
    Gen.FlatSet.insert_hint lt l h v = some (insertHintC lt l h v) := by
  have hlo := lowerBound_le lt l v 0 (h - 1)
  unfold Gen.FlatSet.insert_hint insertHintC
  rw [insert_eq]
  generalize lowerBound lt l v 0 (h - 1) = p at hlo ⊢
  obtain ⟨i, c⟩ := p
  simp only [Nat.zero_add] at hlo
  by_cases he : h = l.length
  · -- hint == end()
    have hn : l[h]? = none := by simp [he]
    by_cases h0 : h = 0
    · have hl : 0 = l.length := by omega
      simp [he, ← hl]
    · have hl : ¬ (0 = l.length) := by omega
      obtain ⟨p, hp⟩ := getElem?_of_lt l (h - 1) (by omega)
      rw [if_pos he, if_neg hl, if_neg h0]
      simp only [hn, hp, h0, if_false]
      cases hvp : lt v p
      · cases hpv : lt p v <;> simp
      · by_cases hi : i = h - 1
        · simp [hi] <;> omega
        · obtain ⟨y, hy⟩ := getElem?_of_lt l i (by omega)
          simp only [hi, hy, if_false]
          cases hvy : lt v y <;> simp <;> omega
  · have hlt : h < l.length := by omega
    obtain ⟨x, hx⟩ := getElem?_of_lt l h hlt
    have hl : ¬ (0 = l.length) := by omega
    rw [if_neg he]
    simp only [hx]
    cases hxv : lt x v
    · -- !comp(*hint, v)
      simp only [Bool.false_eq_true, if_false, if_neg hl, Bool.not_false, if_true]
      by_cases h0 : h = 0
      · cases hvx : lt v x <;> simp [h0] <;> omega
      · obtain ⟨p, hp⟩ := getElem?_of_lt l (h - 1) (by omega)
        simp only [h0, hp, if_false]
        cases hvp : lt v p
        · cases hvx : lt v x <;> cases hpv : lt p v <;> simp <;> omega
        · by_cases hi : i = h - 1
          · simp [hi] <;> omega
          · obtain ⟨y, hy⟩ := getElem?_of_lt l i (by omega)
            simp only [hi, hy, if_false]
            cases hvy : lt v y <;> simp <;> omega
    · -- comp(*hint, v)
      by_cases hn1 : h + 1 = l.length
      · have hnn : l[h + 1]? = none := by simp [hn1]
        simp [hnn, if_pos hn1]
      · obtain ⟨y, hy⟩ := getElem?_of_lt l (h + 1) (by omega)
        simp only [hn1, hy, if_false]
        cases hyv : lt y v <;> cases hvy : lt v y <;> simp [insertValR] <;> omega

/-- the instantiation for rvalues (`V = int`): same decision tree, falls back on `insert(T&&)` -/
theorem insert_hint_rv_eq (lt : α → α → Bool) (l : List α) (h : Nat) (hh : h ≤ l.length) (v : α) :
    Gen.FlatSet.insert_hint_rv lt l h v = some (insertHintC lt l h v) := by
  have hlo := lowerBound_le lt l v 0 (h - 1)
  unfold Gen.FlatSet.insert_hint_rv insertHintC
  rw [insert_rv_eq]
  generalize lowerBound lt l v 0 (h - 1) = p at hlo ⊢
  obtain ⟨i, c⟩ := p
  simp only [Nat.zero_add] at hlo
  by_cases he : h = l.length
  · -- hint == end()
    have hn : l[h]? = none := by simp [he]
    by_cases h0 : h = 0
    · have hl : 0 = l.length := by omega
      simp [he, ← hl]
    · have hl : ¬ (0 = l.length) := by omega
      obtain ⟨p, hp⟩ := getElem?_of_lt l (h - 1) (by omega)
      rw [if_pos he, if_neg hl, if_neg h0]
      simp only [hn, hp, h0, if_false]
      cases hvp : lt v p
      · cases hpv : lt p v <;> simp
      · by_cases hi : i = h - 1
        · simp [hi] <;> omega
        · obtain ⟨y, hy⟩ := getElem?_of_lt l i (by omega)
          simp only [hi, hy, if_false]
          cases hvy : lt v y <;> simp <;> omega
  · have hlt : h < l.length := by omega
    obtain ⟨x, hx⟩ := getElem?_of_lt l h hlt
    have hl : ¬ (0 = l.length) := by omega
    rw [if_neg he]
    simp only [hx]
    cases hxv : lt x v
    · -- !comp(*hint, v)
      simp only [Bool.false_eq_true, if_false, if_neg hl, Bool.not_false, if_true]
      by_cases h0 : h = 0
      · cases hvx : lt v x <;> simp [h0] <;> omega
      · obtain ⟨p, hp⟩ := getElem?_of_lt l (h - 1) (by omega)
        simp only [h0, hp, if_false]
        cases hvp : lt v p
        · cases hvx : lt v x <;> cases hpv : lt p v <;> simp <;> omega
        · by_cases hi : i = h - 1
          · simp [hi] <;> omega
          · obtain ⟨y, hy⟩ := getElem?_of_lt l i (by omega)
            simp only [hi, hy, if_false]
            cases hvy : lt v y <;> simp <;> omega
    · -- comp(*hint, v)
      by_cases hn1 : h + 1 = l.length
      · have hnn : l[h + 1]? = none := by simp [hn1]
        simp [hnn, if_pos hn1]
      · obtain ⟨y, hy⟩ := getElem?_of_lt l (h + 1) (by omega)
        simp only [hn1, hy, if_false]
        cases hyv : lt y v <;> cases hvy : lt v y <;> simp [insertValR] <;> omega

/-- the public entry point `insert(const_iterator hint, const T&)` (flatset.hpp:211) -/
theorem insert_at_eq (lt : α → α → Bool) (l : List α) (h : Nat) (hh : h ≤ l.length) (v : α) :
    Gen.FlatSet.insert_at lt l h v = some (insertHintC lt l h v) := by
  unfold Gen.FlatSet.insert_at
  rw [insert_hint_eq lt l h hh v]

/-- the public entry point `insert(const_iterator hint, T&&)` (flatset.hpp:213) -/
theorem insert_at_rv_eq (lt : α → α → Bool) (l : List α) (h : Nat) (hh : h ≤ l.length) (v : α) :
    Gen.FlatSet.insert_at_rv lt l h v = some (insertHintC lt l h v) := by
  unfold Gen.FlatSet.insert_at_rv
  rw [insert_hint_rv_eq lt l h hh v]

/-- `emplace(args...)` = `insert(T(args...))` (flatset.hpp:252), instantiated with one argument of the element type -/
theorem emplace_eq (lt : α → α → Bool) (l : List α) (v : α) :
    Gen.FlatSet.emplace lt l v = some (insertValR lt l v) := by
  unfold Gen.FlatSet.emplace
  rw [insert_rv_eq]

/-- `emplace_hint(hint, args...)` = `insert(hint, T(args...))` (flatset.hpp:257) -/
theorem emplace_hint_eq (lt : α → α → Bool) (l : List α) (h : Nat) (hh : h ≤ l.length) (v : α) :
    Gen.FlatSet.emplace_hint lt l h v = some (insertHintC lt l h v) := by
  unfold Gen.FlatSet.emplace_hint
  rw [insert_at_rv_eq lt l h hh v]

end AmcVerif.Bridge.FlatSet
