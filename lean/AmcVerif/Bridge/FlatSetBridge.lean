import AmcVerif.Gen.FlatSetGen
import AmcVerif.Model.Sets
import AmcVerif.Lemmas.FlatSetInv
/-! Tie between `include/amc/flatset.hpp` and the hand-written FlatSet model (`Model/Sets.lean`).

`Gen/FlatSetGen.lean` is regenerated from the header by `translator/flatset2lean.py` on every run.  The theorems below state
that each generated function (a) never reaches undefined behaviour (its result is `some _`) and (b) computes exactly what
the hand-written model computes: content, returned index / flag, and number of comparator calls.  No hypothesis on the
comparator or on the order of the list is needed; the only hypothesis is `h ≤ l.length` on an iterator argument
(the precondition `begin() <= hint <= end()` of the C++ function, its `assert`).  A change of the decision logic in the
header changes the generated definitions and breaks these proofs. -/
namespace AmcVerif.Bridge.FlatSet
open AmcVerif AmcVerif.FS AmcVerif.Sets
variable {α : Type} {lt : α → α → Bool}

/-- the halving loop stays inside its window (unconditionally) -/
theorem lowerBound_range (lt : α → α → Bool) (l : List α) (v : α) (k : Nat) :
    ∀ first len, len < 2 ^ k →
      first ≤ (lowerBound lt l v first len).1 ∧ (lowerBound lt l v first len).1 ≤ first + len := by
  induction k with
  | zero => intro first len h; have : len = 0 := by omega
            subst this; simp [lowerBound]
  | succ k ih =>
    intro first len h
    cases len with
    | zero => simp [lowerBound]
    | succ n =>
      rw [lowerBound]
      simp only
      split
      · split
        · have := ih (first + (n+1)/2 + 1) (n + 1 - (n+1)/2 - 1) (by rw [Nat.pow_succ] at h; omega)
          simp only; omega
        · have := ih first ((n+1)/2) (by rw [Nat.pow_succ] at h; omega)
          simp only; omega
      · simp

theorem lowerBound_ge (lt : α → α → Bool) (l : List α) (v : α) (first len : Nat) :
    first ≤ (lowerBound lt l v first len).1 :=
  (lowerBound_range lt l v len first len Nat.lt_two_pow_self).1

theorem lowerBound_le (lt : α → α → Bool) (l : List α) (v : α) (first len : Nat) :
    (lowerBound lt l v first len).1 ≤ first + len :=
  (lowerBound_range lt l v len first len Nat.lt_two_pow_self).2

/-- an index below the length has an element -/
theorem getElem?_of_lt (l : List α) (i : Nat) (h : i < l.length) : ∃ x, l[i]? = some x :=
  ⟨l[i], List.getElem?_eq_getElem h⟩

/-! ### lookups -/

theorem lower_bound_eq (lt : α → α → Bool) (l : List α) (v : α) :
    Gen.FlatSet.lower_bound lt l v = some (lowerBound lt l v 0 l.length) := by
  simp [Gen.FlatSet.lower_bound]

theorem upper_bound_eq (lt : α → α → Bool) (l : List α) (v : α) :
    Gen.FlatSet.upper_bound lt l v = some (upperBound lt l v 0 l.length) := by
  simp [Gen.FlatSet.upper_bound]

/-- the iterator returned by `find`: `end()` when the model says "absent" -/
def findIdx (l : List α) (r : Option Nat) : Nat := match r with | some i => i | none => l.length

theorem find_eq (lt : α → α → Bool) (l : List α) (k : α) :
    Gen.FlatSet.find lt l k = some (findIdx l (findC lt l k).1, (findC lt l k).2) := by
  have hle := lowerBound_le lt l k 0 l.length
  unfold Gen.FlatSet.find findC
  rw [lower_bound_eq]
  generalize lowerBound lt l k 0 l.length = p at hle
  obtain ⟨i, c⟩ := p
  simp only at hle ⊢
  by_cases hi : i = l.length
  · subst hi; simp [findIdx]
  · obtain ⟨x, hx⟩ := getElem?_of_lt l i (by omega)
    simp only [hi, hx, if_false]
    cases lt k x <;> simp [findIdx]

/-- the model's `find` designates an existing element -/
theorem findC_some_lt (lt : α → α → Bool) (l : List α) (k : α) (i : Nat) (h : (findC lt l k).1 = some i) :
    i < l.length := by
  unfold findC at h
  generalize lowerBound lt l k 0 l.length = p at h
  obtain ⟨j, c⟩ := p
  simp only at h
  cases hx : l[j]? with
  | none => simp [hx] at h
  | some x =>
    have hj : j < l.length := by
      cases Nat.lt_or_ge j l.length with
      | inl hlt => exact hlt
      | inr hge => rw [List.getElem?_eq_none hge] at hx; cases hx
    cases hk : lt k x <;> simp [hx, hk] at h
    omega

theorem contains_eq (lt : α → α → Bool) (l : List α) (k : α) :
    Gen.FlatSet.contains lt l k = some ((findC lt l k).1.isSome, (findC lt l k).2) := by
  unfold Gen.FlatSet.contains
  rw [find_eq]
  cases hf : (findC lt l k).1 with
  | none => simp [findIdx]
  | some i =>
    have := findC_some_lt lt l k i hf
    have hne : ¬ (i = l.length) := by omega
    simp [findIdx, hne]

theorem count_eq (lt : α → α → Bool) (l : List α) (k : α) :
    Gen.FlatSet.count lt l k = some ((if (findC lt l k).1.isSome then 1 else 0), (findC lt l k).2) := by
  unfold Gen.FlatSet.count
  rw [contains_eq]
  cases (findC lt l k).1 <;> simp

theorem equal_range_eq (lt : α → α → Bool) (l : List α) (k : α) :
    Gen.FlatSet.equal_range lt l k
      = some ((findIdx l (findC lt l k).1, (match (findC lt l k).1 with | some i => i + 1 | none => l.length)),
              (findC lt l k).2) := by
  unfold Gen.FlatSet.equal_range
  rw [find_eq]
  cases hf : (findC lt l k).1 with
  | none => simp [findIdx]
  | some i =>
    have := findC_some_lt lt l k i hf
    have hne : ¬ (i = l.length) := by omega
    simp [findIdx, hne]

/-! ### `erase(key)` -/

theorem erase_eq (lt : α → α → Bool) (l : List α) (k : α) :
    Gen.FlatSet.erase lt l k = some (eraseKey lt l k) := by
  unfold Gen.FlatSet.erase eraseKey
  rw [find_eq]
  generalize hf : findC lt l k = p
  obtain ⟨r, c⟩ := p
  cases r with
  | none => simp [findIdx]
  | some i =>
    have := findC_some_lt lt l k i (by rw [hf])
    have hne : ¬ (i = l.length) := by omega
    simp [findIdx, hne, this]

/-! ### `insert(value)` -/

/-- the result of the model's `insert_val` in the shape of the generated functions: (content, (iterator, inserted), calls) -/
def insertValR (lt : α → α → Bool) (l : List α) (v : α) : List α × (Nat × Bool) × Nat :=
  ((insertValC lt l v).1, ((insertValC lt l v).2.1, (insertValC lt l v).2.2.1), (insertValC lt l v).2.2.2)

theorem insert_val_eq (lt : α → α → Bool) (l : List α) (v : α) :
    Gen.FlatSet.insert_val lt l v = some (insertValR lt l v) := by
  have hle := lowerBound_le lt l v 0 l.length
  unfold Gen.FlatSet.insert_val insertValR insertValC
  generalize lowerBound lt l v 0 l.length = p at hle
  obtain ⟨i, c⟩ := p
  simp only at hle ⊢
  by_cases hi : i = l.length
  · subst hi; simp
  · obtain ⟨x, hx⟩ := getElem?_of_lt l i (by omega)
    simp only [hi, hx, if_false]
    cases lt v x <;> simp

theorem insert_val_rv_eq (lt : α → α → Bool) (l : List α) (v : α) :
    Gen.FlatSet.insert_val_rv lt l v = some (insertValR lt l v) := by
  have hle := lowerBound_le lt l v 0 l.length
  unfold Gen.FlatSet.insert_val_rv insertValR insertValC
  generalize lowerBound lt l v 0 l.length = p at hle
  obtain ⟨i, c⟩ := p
  simp only at hle ⊢
  by_cases hi : i = l.length
  · subst hi; simp
  · obtain ⟨x, hx⟩ := getElem?_of_lt l i (by omega)
    simp only [hi, hx, if_false]
    cases lt v x <;> simp

theorem insert_eq (lt : α → α → Bool) (l : List α) (v : α) :
    Gen.FlatSet.insert lt l v = some (insertValR lt l v) := by
  unfold Gen.FlatSet.insert
  rw [insert_val_eq]

theorem insert_rv_eq (lt : α → α → Bool) (l : List α) (v : α) :
    Gen.FlatSet.insert_rv lt l v = some (insertValR lt l v) := by
  unfold Gen.FlatSet.insert_rv
  rw [insert_val_rv_eq]

/-! ### `insert(hint, value)`

Hypothesis `h ≤ l.length`: the precondition of the C++ function (`assert(hint >= b && hint <= e)`).  Without it the generated
function dereferences `hint` outside `[begin, end)` (result `none`) while the hand-written model treats `l[h]? = none` as
`hint == end()`. -/

theorem insert_hint_eq (lt : α → α → Bool) (l : List α) (h : Nat) (hh : h ≤ l.length) (v : α) :
    Gen.FlatSet.insert_hint lt l h v = some (insertHintC lt l h v) := by
  have hlo := lowerBound_le lt l v 0 (h - 1)
  unfold Gen.FlatSet.insert_hint insertHintC
  rw [insert_eq]
  generalize lowerBound lt l v 0 (h - 1) = p at hlo ⊢
  obtain ⟨i, c⟩ := p
  simp only [Nat.zero_add] at hlo
  by_cases he : h = l.length
  · -- hint == end()
    have hn : l[h]? = none := by simp [he]
    by_cases h0 : h = 0
    · have hl : 0 = l.length := by omega
      simp [he, ← hl]
    · have hl : ¬ (0 = l.length) := by omega
      obtain ⟨p, hp⟩ := getElem?_of_lt l (h - 1) (by omega)
      rw [if_pos he, if_neg hl, if_neg h0]
      simp only [hn, hp, h0, if_false]
      cases hvp : lt v p
      · cases hpv : lt p v <;> simp
      · by_cases hi : i = h - 1
        · simp [hi] <;> omega
        · obtain ⟨y, hy⟩ := getElem?_of_lt l i (by omega)
          simp only [hi, hy, if_false]
          cases hvy : lt v y <;> simp <;> omega
  · have hlt : h < l.length := by omega
    obtain ⟨x, hx⟩ := getElem?_of_lt l h hlt
    have hl : ¬ (0 = l.length) := by omega
    rw [if_neg he]
    simp only [hx]
    cases hxv : lt x v
    · -- !comp(*hint, v)
      simp only [Bool.false_eq_true, if_false, if_neg hl, Bool.not_false, if_true]
      by_cases h0 : h = 0
      · cases hvx : lt v x <;> simp [h0] <;> omega
      · obtain ⟨p, hp⟩ := getElem?_of_lt l (h - 1) (by omega)
        simp only [h0, hp, if_false]
        cases hvp : lt v p
        · cases hvx : lt v x <;> cases hpv : lt p v <;> simp <;> omega
        · by_cases hi : i = h - 1
          · simp [hi] <;> omega
          · obtain ⟨y, hy⟩ := getElem?_of_lt l i (by omega)
            simp only [hi, hy, if_false]
            cases hvy : lt v y <;> simp <;> omega
    · -- comp(*hint, v)
      by_cases hn1 : h + 1 = l.length
      · have hnn : l[h + 1]? = none := by simp [hn1]
        simp [hnn, if_pos hn1]
      · obtain ⟨y, hy⟩ := getElem?_of_lt l (h + 1) (by omega)
        simp only [hn1, hy, if_false]
        cases hyv : lt y v <;> cases hvy : lt v y <;> simp [insertValR] <;> omega

/-- the instantiation for rvalues (`V = int`): same decision tree, falls back on `insert(T&&)` -/
theorem insert_hint_rv_eq (lt : α → α → Bool) (l : List α) (h : Nat) (hh : h ≤ l.length) (v : α) :
    Gen.FlatSet.insert_hint_rv lt l h v = some (insertHintC lt l h v) := by
  have hlo := lowerBound_le lt l v 0 (h - 1)
  unfold Gen.FlatSet.insert_hint_rv insertHintC
  rw [insert_rv_eq]
  generalize lowerBound lt l v 0 (h - 1) = p at hlo ⊢
  obtain ⟨i, c⟩ := p
  simp only [Nat.zero_add] at hlo
  by_cases he : h = l.length
  · -- hint == end()
    have hn : l[h]? = none := by simp [he]
    by_cases h0 : h = 0
    · have hl : 0 = l.length := by omega
      simp [he, ← hl]
    · have hl : ¬ (0 = l.length) := by omega
      obtain ⟨p, hp⟩ := getElem?_of_lt l (h - 1) (by omega)
      rw [if_pos he, if_neg hl, if_neg h0]
      simp only [hn, hp, h0, if_false]
      cases hvp : lt v p
      · cases hpv : lt p v <;> simp
      · by_cases hi : i = h - 1
        · simp [hi] <;> omega
        · obtain ⟨y, hy⟩ := getElem?_of_lt l i (by omega)
          simp only [hi, hy, if_false]
          cases hvy : lt v y <;> simp <;> omega
  · have hlt : h < l.length := by omega
    obtain ⟨x, hx⟩ := getElem?_of_lt l h hlt
    have hl : ¬ (0 = l.length) := by omega
    rw [if_neg he]
    simp only [hx]
    cases hxv : lt x v
    · -- !comp(*hint, v)
      simp only [Bool.false_eq_true, if_false, if_neg hl, Bool.not_false, if_true]
      by_cases h0 : h = 0
      · cases hvx : lt v x <;> simp [h0] <;> omega
      · obtain ⟨p, hp⟩ := getElem?_of_lt l (h - 1) (by omega)
        simp only [h0, hp, if_false]
        cases hvp : lt v p
        · cases hvx : lt v x <;> cases hpv : lt p v <;> simp <;> omega
        · by_cases hi : i = h - 1
          · simp [hi] <;> omega
          · obtain ⟨y, hy⟩ := getElem?_of_lt l i (by omega)
            simp only [hi, hy, if_false]
            cases hvy : lt v y <;> simp <;> omega
    · -- comp(*hint, v)
      by_cases hn1 : h + 1 = l.length
      · have hnn : l[h + 1]? = none := by simp [hn1]
        simp [hnn, if_pos hn1]
      · obtain ⟨y, hy⟩ := getElem?_of_lt l (h + 1) (by omega)
        simp only [hn1, hy, if_false]
        cases hyv : lt y v <;> cases hvy : lt v y <;> simp [insertValR] <;> omega

/-- the public entry point `insert(const_iterator hint, const T&)` (flatset.hpp:211) -/
theorem insert_at_eq (lt : α → α → Bool) (l : List α) (h : Nat) (hh : h ≤ l.length) (v : α) :
    Gen.FlatSet.insert_at lt l h v = some (insertHintC lt l h v) := by
  unfold Gen.FlatSet.insert_at
  rw [insert_hint_eq lt l h hh v]

/-- the public entry point `insert(const_iterator hint, T&&)` (flatset.hpp:213) -/
theorem insert_at_rv_eq (lt : α → α → Bool) (l : List α) (h : Nat) (hh : h ≤ l.length) (v : α) :
    Gen.FlatSet.insert_at_rv lt l h v = some (insertHintC lt l h v) := by
  unfold Gen.FlatSet.insert_at_rv
  rw [insert_hint_rv_eq lt l h hh v]

/-- `emplace(args...)` = `insert(T(args...))` (flatset.hpp:252), instantiated with one argument of the element type -/
theorem emplace_eq (lt : α → α → Bool) (l : List α) (v : α) :
    Gen.FlatSet.emplace lt l v = some (insertValR lt l v) := by
  unfold Gen.FlatSet.emplace
  rw [insert_rv_eq]

/-- `emplace_hint(hint, args...)` = `insert(hint, T(args...))` (flatset.hpp:257) -/
theorem emplace_hint_eq (lt : α → α → Bool) (l : List α) (h : Nat) (hh : h ≤ l.length) (v : α) :
    Gen.FlatSet.emplace_hint lt l h v = some (insertHintC lt l h v) := by
  unfold Gen.FlatSet.emplace_hint
  rw [insert_at_rv_eq lt l h hh v]

/-! ## Task T8: the remaining members

### `erase(position)`, `erase(first, last)`, `clear`, `size`, `empty`

Hypotheses `i < l.length` / `a ≤ b ≤ l.length`: the preconditions of the C++ functions (a dereferenceable iterator, a valid range of
this set); without them the generated functions return `none` (`_sortedVector.erase` outside `[begin, end)`).  The hand-written
model has no function of its own for these members (it uses `List.eraseIdx` directly): the theorems are direct specifications. -/

theorem erase_at_eq (lt : α → α → Bool) (l : List α) (i : Nat) (hi : i < l.length) :
    Gen.FlatSet.erase_at lt l i = some (l.eraseIdx i, i, 0) := by
  simp [Gen.FlatSet.erase_at, hi]

theorem erase_at_none (lt : α → α → Bool) (l : List α) (i : Nat) (hi : l.length ≤ i) :
    Gen.FlatSet.erase_at lt l i = none := by
  have : ¬ i < l.length := by omega
  simp [Gen.FlatSet.erase_at, this]

theorem erase_range_eq (lt : α → α → Bool) (l : List α) (a b : Nat) (hab : a ≤ b) (hb : b ≤ l.length) :
    Gen.FlatSet.erase_range lt l a b = some (l.take a ++ l.drop b, a, 0) := by
  simp [Gen.FlatSet.erase_range, hab, hb]

/-- erasing the range `[i, i+1)` is erasing position `i` -/
theorem erase_range_one (lt : α → α → Bool) (l : List α) (i : Nat) (hi : i < l.length) :
    Gen.FlatSet.erase_range lt l i (i + 1) = Gen.FlatSet.erase_at lt l i := by
  rw [erase_range_eq lt l i (i + 1) (by omega) (by omega), erase_at_eq lt l i hi, List.eraseIdx_eq_take_drop_succ]

theorem clear_eq (lt : α → α → Bool) (l : List α) : Gen.FlatSet.clear lt l = some ([], (), 0) := rfl

theorem size_eq (lt : α → α → Bool) (l : List α) : Gen.FlatSet.size lt l = some (l.length, 0) := rfl

theorem empty_eq (lt : α → α → Bool) (l : List α) : Gen.FlatSet.empty lt l = some (decide (l.length = 0), 0) := rfl

/-! ### `swap`, comparison operators

`swap` exchanges the contents AND the comparator objects.  `==` / `<` are those of the underlying vector: `std::equal` on equal
sizes / `std::lexicographical_compare` with the operators `eqT` / `ltT` of the ELEMENT type, not the comparator of the set. -/

theorem swap_eq (lt lt_o : α → α → Bool) (l o : List α) :
    Gen.FlatSet.swap lt l lt_o o = some (lt_o, o, lt, l, (), 0) := rfl

theorem op_eq_eq (lt lt_o eqT : α → α → Bool) (l o : List α) :
    Gen.FlatSet.op_eq lt l lt_o o eqT = some (Gen.FlatSet.vecEq eqT l o, 0) := rfl

theorem op_ne_eq (lt lt_o eqT : α → α → Bool) (l o : List α) :
    Gen.FlatSet.op_ne lt l lt_o o eqT = some (!Gen.FlatSet.vecEq eqT l o, 0) := by
  unfold Gen.FlatSet.op_ne
  rw [op_eq_eq]
  cases Gen.FlatSet.vecEq eqT l o <;> rfl

theorem op_lt_eq (lt lt_o ltT : α → α → Bool) (l o : List α) :
    Gen.FlatSet.op_lt lt l lt_o o ltT = some (Gen.FlatSet.vecLess ltT l o, 0) := rfl

theorem op_gt_eq (lt lt_o ltT : α → α → Bool) (l o : List α) :
    Gen.FlatSet.op_gt lt l lt_o o ltT = some (Gen.FlatSet.vecLess ltT o l, 0) := by
  unfold Gen.FlatSet.op_gt
  rw [op_lt_eq]

theorem op_le_eq (lt lt_o ltT : α → α → Bool) (l o : List α) :
    Gen.FlatSet.op_le lt l lt_o o ltT = some (!Gen.FlatSet.vecLess ltT o l, 0) := by
  unfold Gen.FlatSet.op_le
  rw [op_lt_eq]
  cases Gen.FlatSet.vecLess ltT o l <;> rfl

theorem op_ge_eq (lt lt_o ltT : α → α → Bool) (l o : List α) :
    Gen.FlatSet.op_ge lt l lt_o o ltT = some (!Gen.FlatSet.vecLess ltT l o, 0) := by
  unfold Gen.FlatSet.op_ge
  rw [op_lt_eq]
  cases Gen.FlatSet.vecLess ltT l o <;> rfl

/-- `vecEq` with a decidable equality of the elements is equality of the sequences -/
theorem vecEq_decide [DecidableEq α] (l o : List α) :
    Gen.FlatSet.vecEq (fun a b => decide (a = b)) l o = decide (l = o) := by
  induction l generalizing o with
  | nil => cases o <;> simp [Gen.FlatSet.vecEq]
  | cons a t ih =>
    cases o with
    | nil => simp [Gen.FlatSet.vecEq]
    | cons b u =>
      simp only [Gen.FlatSet.vecEq, ih, List.cons.injEq]
      by_cases hab : a = b <;> by_cases htu : t = u <;> simp [hab, htu]

/-- `vecLess` is irreflexive when the element order is -/
theorem vecLess_irrefl (ltT : α → α → Bool) (hirr : ∀ a, ltT a a = false) (l : List α) :
    Gen.FlatSet.vecLess ltT l l = false := by
  induction l with
  | nil => rfl
  | cons a t ih => simp [Gen.FlatSet.vecLess, hirr, ih]

/-- `vecLess` is the lexicographic order `List.lex` of the core library when `==` of the elements is "neither is less" -/
theorem vecLess_eq_lex [BEq α] (ltT : α → α → Bool) (hasym : ∀ a b, ltT a b = true → ltT b a = false)
    (heq : ∀ a b, (a == b) = (!ltT a b && !ltT b a)) (l o : List α) :
    Gen.FlatSet.vecLess ltT l o = List.lex l o ltT := by
  induction l generalizing o with
  | nil => cases o <;> simp [Gen.FlatSet.vecLess, List.lex]
  | cons a t ih =>
    cases o with
    | nil => simp [Gen.FlatSet.vecLess, List.lex]
    | cons b u =>
      simp only [Gen.FlatSet.vecLess, List.lex, ih, heq]
      cases hab : ltT a b
      · cases hba : ltT b a <;> simp
      · simp [hasym a b hab]

/-! ### node handles: `mfind`, `extract(key)`, `extract(position)`, `insert(node)`, `insert(hint, node)`

A node handle is an `Option α`.  `insert(node_type&&)` returns `{position, inserted, node}`; `insert(hint, node_type&&)` returns the
position and leaves the node in its argument (emptied iff the size of the set changed). -/

theorem mfind_eq (lt : α → α → Bool) (l : List α) (k : α) :
    Gen.FlatSet.mfind lt l k = some (l, findIdx l (findC lt l k).1, (findC lt l k).2) := by
  have hle := lowerBound_le lt l k 0 l.length
  unfold Gen.FlatSet.mfind findC
  generalize lowerBound lt l k 0 l.length = p at hle
  obtain ⟨i, c⟩ := p
  simp only at hle ⊢
  by_cases hi : i = l.length
  · subst hi; simp [findIdx]
  · obtain ⟨x, hx⟩ := getElem?_of_lt l i (by omega)
    simp only [hi, hx, if_false]
    cases lt k x <;> simp [findIdx]

/-- the model of `extract(key)`: the element found leaves the set and is handed out in the node -/
def extractR (lt : α → α → Bool) (l : List α) (k : α) : List α × Option α × Nat :=
  match (findC lt l k).1 with
  | some i => (l.eraseIdx i, l[i]?, (findC lt l k).2)
  | none => (l, none, (findC lt l k).2)

theorem extract_eq (lt : α → α → Bool) (l : List α) (k : α) :
    Gen.FlatSet.extract lt l k = some (extractR lt l k) := by
  unfold Gen.FlatSet.extract extractR
  rw [mfind_eq]
  cases hf : (findC lt l k).1 with
  | none => simp [findIdx]
  | some i =>
    have hlt := findC_some_lt lt l k i hf
    have hne : ¬ (i = l.length) := by omega
    obtain ⟨x, hx⟩ := getElem?_of_lt l i hlt
    simp [findIdx, hne, hx]

/-- content of `extract(key)` = content of `erase(key)` -/
theorem extract_content (lt : α → α → Bool) (l : List α) (k : α) : (extractR lt l k).1 = (eraseKey lt l k).1 := by
  unfold extractR eraseKey
  generalize findC lt l k = p
  obtain ⟨r, c⟩ := p
  cases r <;> rfl

theorem extract_at_eq (lt : α → α → Bool) (l : List α) (i : Nat) (hi : i < l.length) :
    Gen.FlatSet.extract_at lt l i = some (l.eraseIdx i, l[i]?, 0) := by
  obtain ⟨x, hx⟩ := getElem?_of_lt l i hi
  simp [Gen.FlatSet.extract_at, hx]

/-- the model of `insert(node_type&&)`: `{position, inserted, node}`; a refused node keeps its value -/
def insertNodeR (lt : α → α → Bool) (l : List α) (nh : Option α) : List α × (Nat × Bool × Option α) × Nat :=
  match nh with
  | none => (l, (l.length, false, none), 0)
  | some v => ((insertValR lt l v).1,
               ((insertValR lt l v).2.1.1, (insertValR lt l v).2.1.2, if (insertValR lt l v).2.1.2 then none else some v),
               (insertValR lt l v).2.2)

theorem insert_node_eq (lt : α → α → Bool) (l : List α) (nh : Option α) :
    Gen.FlatSet.insert_node lt l nh = some (insertNodeR lt l nh) := by
  unfold Gen.FlatSet.insert_node insertNodeR
  cases nh with
  | none => rfl
  | some v =>
    simp only [insert_rv_eq]
    cases (insertValR lt l v).2.1.2 <;> simp

/-- the model of `insert(hint, node_type&&)`: (content, (position, node left to the caller), calls): the node is emptied
    iff the size of the set has changed -/
def insertNodeAtR (lt : α → α → Bool) (l : List α) (h : Nat) (nh : Option α) : List α × (Nat × Option α) × Nat :=
  match nh with
  | none => (l, (l.length, none), 0)
  | some v => ((insertHintC lt l h v).1,
               ((insertHintC lt l h v).2.1, if (insertHintC lt l h v).1.length = l.length then some v else none),
               (insertHintC lt l h v).2.2)

theorem insert_node_at_eq (lt : α → α → Bool) (l : List α) (h : Nat) (hh : h ≤ l.length) (nh : Option α) :
    Gen.FlatSet.insert_node_at lt l h nh = some (insertNodeAtR lt l h nh) := by
  unfold Gen.FlatSet.insert_node_at insertNodeAtR
  cases nh with
  | none => rfl
  | some v =>
    simp only [size_eq, insert_at_rv_eq lt l h hh v]
    by_cases hl : (insertHintC lt l h v).1.length = l.length <;> simp [hl]

/-! ### the bulk paths: `std::stable_sort` + `std::inplace_merge` + `std::unique` = inserting one by one in input order -/

/-- the "not greater" relation of a comparator, the order the library algorithms sort by -/
def leOf (lt : α → α → Bool) : α → α → Bool := fun a b => !lt b a

theorem leOf_trans (hswo : SWO lt) : ∀ a b c, leOf lt a b = true → leOf lt b c = true → leOf lt a c = true := by
  intro a b c h1 h2
  simp only [leOf, Bool.not_eq_true'] at *
  cases h : lt c a with
  | false => rfl
  | true =>
    rcases hswo.cotrans c b a h with h' | h'
    · rw [h2] at h'; cases h'
    · rw [h1] at h'; cases h'

theorem leOf_total (hswo : SWO lt) : ∀ a b, (leOf lt a b || leOf lt b a) = true := by
  intro a b
  simp only [leOf]
  cases h : lt b a with
  | false => simp
  | true => simp [hswo.asymm h]

/-- insertion before the first element that is not below `a` (lower bound) -/
def insL (lt : α → α → Bool) (a : α) : List α → List α
  | [] => [a]
  | b :: t => if lt b a then b :: insL lt a t else a :: b :: t

/-- insertion before the first element that is above `w` (upper bound) -/
def insU (lt : α → α → Bool) (w : α) : List α → List α
  | [] => [w]
  | b :: t => if lt w b then w :: b :: t else b :: insU lt w t

/-- `FlatSet::insert_val` on the content, written recursively -/
def insV (lt : α → α → Bool) (w : α) : List α → List α
  | [] => [w]
  | b :: t => if lt b w then b :: insV lt w t else if lt w b then w :: b :: t else b :: t

theorem insertVal_eq_insV (lt : α → α → Bool) (u : List α) (w : α) : (insertVal lt u w).1 = insV lt w u := by
  induction u with
  | nil => simp [insertVal, lowerIdx, insV]
  | cons b t ih =>
    unfold insertVal at ih ⊢
    simp only [lowerIdx, insV] at ih ⊢
    cases hb : lt b w
    · simp only [List.takeWhile, hb, List.length_nil, List.getElem?_cons_zero, Bool.false_eq_true, if_false]
      cases hwb : lt w b <;> simp
    · simp only [List.takeWhile, hb, List.length_cons, List.getElem?_cons_succ, if_true]
      rw [← ih]
      cases hx : t[(List.takeWhile (fun x => lt x w) t).length]? with
      | none => simp [List.insertIdx_succ_cons]
      | some x => cases hwx : lt w x <;> simp [hwx, List.insertIdx_succ_cons]

theorem insertAll_eq_foldl_insV (lt : α → α → Bool) (vs : List α) :
    ∀ l, insertAll lt l vs = vs.foldl (fun acc w => insV lt w acc) l := by
  induction vs with
  | nil => intro l; rfl
  | cons v rest ih => intro l; simp only [insertAll, List.foldl_cons] at ih ⊢; rw [insertVal_eq_insV]; exact ih _

theorem insL_append (a : α) (l₁ l₂ : List α) (h1 : ∀ b ∈ l₁, lt b a = true) (h2 : ∀ b ∈ l₂, lt b a = false) :
    insL lt a (l₁ ++ l₂) = l₁ ++ a :: l₂ := by
  induction l₁ with
  | nil =>
    cases l₂ with
    | nil => rfl
    | cons b t => simp [insL, h2 b (by simp)]
  | cons x t ih =>
    simp only [List.cons_append, insL, h1 x (by simp), if_true]
    rw [ih (fun b hb => h1 b (List.mem_cons_of_mem _ hb))]

/-- the stable sort of the core library inserts the head before the first element that is not below it -/
theorem mergeSort_cons_insL (hswo : SWO lt) (a : α) (l : List α) :
    (a :: l).mergeSort (leOf lt) = insL lt a (l.mergeSort (leOf lt)) := by
  obtain ⟨l₁, l₂, h1, h2, h3⟩ := List.mergeSort_cons (leOf_trans hswo) (leOf_total hswo) a l
  have hp := List.pairwise_mergeSort (leOf_trans hswo) (leOf_total hswo) (a :: l)
  rw [h1] at hp
  rw [h1, h2]
  symm
  apply insL_append
  · intro b hb
    have := h3 b hb
    simpa [leOf] using this
  · intro b hb
    have hp2 := (List.pairwise_append.mp hp).2.1
    have := (List.pairwise_cons.mp hp2).1 b hb
    simpa [leOf] using this

theorem mergeSort_eq_foldr (hswo : SWO lt) (l : List α) : l.mergeSort (leOf lt) = l.foldr (insL lt) [] := by
  induction l with
  | nil => simp
  | cons a t ih => rw [mergeSort_cons_insL hswo, ih]; rfl

/-- merging a sorted `a :: l` into `S`: `a` goes before the first element of the merge of `l` and `S` that is not below it -/
theorem merge_cons_insL (hswo : SWO lt) (a : α) (l : List α) (h : ∀ x ∈ l, lt x a = false) :
    ∀ S, List.merge (a :: l) S (leOf lt) = insL lt a (List.merge l S (leOf lt)) := by
  intro S
  induction S with
  | nil =>
    cases l with
    | nil => simp [insL]
    | cons x t => simp [insL, h x (by simp)]
  | cons b S' ih =>
    cases hba : lt b a
    · -- a <= b : a first
      have hle : leOf lt a b = true := by simp [leOf, hba]
      rw [List.cons_merge_cons_pos _ _ _ hle]
      cases l with
      | nil => simp [insL, hba]
      | cons x t =>
        rw [List.cons_merge_cons]
        split <;> simp [insL, hba, h x (by simp)]
    · -- b < a : b first, on both sides
      have hle : ¬ (leOf lt a b = true) := by simp [leOf, hba]
      rw [List.cons_merge_cons_neg _ _ _ hle, ih]
      cases l with
      | nil => simp [insL, hba]
      | cons x t =>
        have hbx : lt b x = true := by
          rcases hswo.cotrans b x a hba with h' | h'
          · exact h'
          · rw [h x (by simp)] at h'; cases h'
        have hle2 : ¬ (leOf lt x b = true) := by simp [leOf, hbx]
        rw [List.cons_merge_cons_neg _ _ _ hle2]
        simp [insL, hba]

theorem merge_eq_foldr (hswo : SWO lt) (l : List α) (hl : l.Pairwise (fun a b => leOf lt a b = true)) (S : List α) :
    List.merge l S (leOf lt) = l.foldr (insL lt) S := by
  induction l with
  | nil => simp
  | cons a t ih =>
    rw [List.pairwise_cons] at hl
    rw [merge_cons_insL hswo a t (fun x hx => by simpa [leOf] using hl.1 x hx), ih hl.2]
    rfl

theorem insL_insU_comm (hswo : SWO lt) (a w : α) (m : List α) :
    insL lt a (insU lt w m) = insU lt w (insL lt a m) := by
  induction m with
  | nil =>
    simp only [insL, insU]
  | cons b t ih =>
    simp only [insL, insU]
    cases hwb : lt w b
    · cases hba : lt b a
      · simp only [Bool.false_eq_true, if_false, insL, insU, hba, hwb]
        cases hwa : lt w a
        · simp
        · -- w < a <= b <= w : impossible
          rcases hswo.cotrans w b a hwa with h' | h'
          · rw [hwb] at h'; cases h'
          · rw [hba] at h'; cases h'
      · simp [insL, insU, hba, hwb, ih]
    · cases hba : lt b a
      · simp only [if_true, Bool.false_eq_true, if_false, insL, insU, hba, hwb]
      · have hwa : lt w a = true := hswo.trans _ _ _ hwb hba
        simp [insL, insU, hba, hwb, hwa]

theorem foldr_insL_snoc (hswo : SWO lt) (ws : List α) (w : α) :
    (ws ++ [w]).foldr (insL lt) [] = insU lt w (ws.foldr (insL lt) []) := by
  induction ws with
  | nil => rfl
  | cons v t ih => simp only [List.cons_append, List.foldr_cons, ih, insL_insU_comm hswo]

/-- the stable sort as the usual insertion sort: elements taken in input order, each put after the elements not above it -/
theorem foldr_insL_eq_foldl_insU (hswo : SWO lt) (ws : List α) :
    ∀ pre : List α, ws.foldl (fun acc w => insU lt w acc) (pre.foldr (insL lt) []) = (pre ++ ws).foldr (insL lt) [] := by
  induction ws with
  | nil => intro pre; simp
  | cons w t ih =>
    intro pre
    simp only [List.foldl_cons]
    rw [← foldr_insL_snoc hswo, ih]
    simp

theorem mem_insU (w : α) (m : List α) (y : α) : y ∈ insU lt w m ↔ y = w ∨ y ∈ m := by
  induction m with
  | nil => simp [insU]
  | cons b t ih =>
    simp only [insU]
    split
    · simp
    · simp only [List.mem_cons, ih]
      constructor
      · rintro (h | h | h) <;> simp [h]
      · rintro (h | h | h) <;> simp [h]

theorem insU_pairwise (hswo : SWO lt) (w : α) (m : List α) (hm : m.Pairwise (fun a b => leOf lt a b = true)) :
    (insU lt w m).Pairwise (fun a b => leOf lt a b = true) := by
  induction m with
  | nil => simp [insU]
  | cons b t ih =>
    rw [List.pairwise_cons] at hm
    simp only [insU]
    cases hwb : lt w b
    · simp only [Bool.false_eq_true, if_false, List.pairwise_cons]
      refine ⟨?_, ih hm.2⟩
      intro y hy
      rcases (mem_insU w t y).mp hy with rfl | hy
      · simp [leOf, hwb]
      · exact hm.1 y hy
    · simp only [if_true, List.pairwise_cons]
      refine ⟨?_, hm.1, hm.2⟩
      intro y hy
      rcases List.mem_cons.mp hy with rfl | hy
      · simp [leOf, hswo.asymm hwb]
      · have hby := hm.1 y hy
        simp only [leOf, Bool.not_eq_true'] at hby ⊢
        cases hyw : lt y w with
        | false => rfl
        | true => have := hswo.trans _ _ _ hyw hwb; rw [hby] at this; cases this

/-- the equivalence that `eraseDuplicates` hands to `std::unique` -/
theorem pred_eq (lt : α → α → Bool) (a b : α) :
    Gen.FlatSet.eraseDuplicates_pred lt a b = (!lt a b && !lt b a) := by
  unfold Gen.FlatSet.eraseDuplicates_pred
  cases lt a b <;> cases lt b a <;> rfl

open Gen.FlatSet in
/-- one more element in the sorted sequence, seen through `std::unique`: `insert_val` on the duplicate-free sequence -/
theorem uniqueAux_insU (hswo : SWO lt) (m : List α) :
    ∀ prev, (prev :: m).Pairwise (fun a b => leOf lt a b = true) → ∀ w, lt w prev = false →
      prev :: uniqueAux (eraseDuplicates_pred lt) prev (insU lt w m)
        = insV lt w (prev :: uniqueAux (eraseDuplicates_pred lt) prev m) := by
  induction m with
  | nil =>
    intro prev _ w hwp
    simp only [insU, uniqueAux, pred_eq, hwp, insV]
    cases lt prev w <;> simp
  | cons b t ih =>
    intro prev hs w hwp
    have hs' := List.pairwise_cons.mp hs
    have hpb : lt b prev = false := by simpa [leOf] using hs'.1 b (by simp)
    have hst : (b :: t).Pairwise (fun a b => leOf lt a b = true) := hs'.2
    have hpt : (prev :: t).Pairwise (fun a b => leOf lt a b = true) :=
      List.pairwise_cons.mpr ⟨fun y hy => hs'.1 y (List.mem_cons_of_mem _ hy), (List.pairwise_cons.mp hst).2⟩
    simp only [insU]
    cases hwb : lt w b
    · -- b <= w
      simp only [Bool.false_eq_true, if_false, uniqueAux, pred_eq, hpb, Bool.not_false, Bool.and_true]
      cases hprevb : lt prev b
      · -- prev equivalent to b
        simp only [Bool.not_false, if_true]
        exact ih prev hpt w hwp
      · simp only [Bool.not_true, Bool.false_eq_true, if_false]
        have hprevw : lt prev w = true := by
          rcases hswo.cotrans prev w b hprevb with h' | h'
          · exact h'
          · rw [hwb] at h'; cases h'
        rw [ih b hst w hwb]
        simp [insV, hprevw]
    · -- w < b
      have hbw : lt b w = false := hswo.asymm hwb
      have hprevb : lt prev b = true := by
        rcases hswo.cotrans w prev b hwb with h' | h'
        · rw [hwp] at h'; cases h'
        · exact h'
      simp only [if_true, uniqueAux, pred_eq, hwp, hpb, hprevb, hwb, hbw, Bool.not_false, Bool.and_true, Bool.not_true,
        Bool.false_eq_true, if_false]
      cases hprevw : lt prev w <;> simp [insV, hprevw, hwp, hwb, hbw]

open Gen.FlatSet in
theorem uniqueBy_insU (hswo : SWO lt) (m : List α) (hm : m.Pairwise (fun a b => leOf lt a b = true)) (w : α) :
    uniqueBy (eraseDuplicates_pred lt) (insU lt w m) = insV lt w (uniqueBy (eraseDuplicates_pred lt) m) := by
  cases m with
  | nil => rfl
  | cons b t =>
    simp only [insU]
    cases hwb : lt w b
    · simp only [Bool.false_eq_true, if_false, uniqueBy]
      exact uniqueAux_insU hswo t b hm w hwb
    · have hbw : lt b w = false := hswo.asymm hwb
      simp [uniqueBy, uniqueAux, pred_eq, hwb, hbw, insV]

open Gen.FlatSet in
theorem uniqueBy_foldl_insU (hswo : SWO lt) (ws : List α) :
    ∀ m, m.Pairwise (fun a b => leOf lt a b = true) →
      uniqueBy (eraseDuplicates_pred lt) (ws.foldl (fun acc w => insU lt w acc) m)
        = ws.foldl (fun acc w => insV lt w acc) (uniqueBy (eraseDuplicates_pred lt) m) := by
  induction ws with
  | nil => intro m _; rfl
  | cons w t ih =>
    intro m hm
    simp only [List.foldl_cons]
    rw [ih _ (insU_pairwise hswo w m hm), uniqueBy_insU hswo m hm]

open Gen.FlatSet in
/-- sorting stably and keeping the first of every class of equivalent elements = inserting one by one in input order -/
theorem uniqueBy_mergeSort (hswo : SWO lt) (ws : List α) :
    uniqueBy (eraseDuplicates_pred lt) (ws.mergeSort (leOf lt)) = insertAll lt [] ws := by
  rw [mergeSort_eq_foldr hswo, insertAll_eq_foldl_insV]
  have := foldr_insL_eq_foldl_insU hswo ws []
  simp only [List.foldr_nil, List.nil_append] at this
  rw [← this, uniqueBy_foldl_insU hswo ws [] List.Pairwise.nil]
  rfl

theorem sorted_le (hswo : SWO lt) (l : List α) (hs : Sorted lt l) : l.Pairwise (fun a b => leOf lt a b = true) :=
  List.Pairwise.imp (fun {a b} h => by simp [leOf, hswo.asymm h]) hs

open Gen.FlatSet in
theorem uniqueAux_sorted (a : α) (t : List α) (hs : Sorted lt (a :: t)) :
    uniqueAux (eraseDuplicates_pred lt) a t = t := by
  induction t generalizing a with
  | nil => rfl
  | cons b u ih =>
    have h1 := List.pairwise_cons.mp hs
    have hab : lt a b = true := h1.1 b (by simp)
    simp only [uniqueAux, pred_eq, hab, Bool.not_true, Bool.false_and, Bool.false_eq_true, if_false]
    rw [ih b h1.2]

open Gen.FlatSet in
theorem uniqueBy_sorted (l : List α) (hs : Sorted lt l) : uniqueBy (eraseDuplicates_pred lt) l = l := by
  cases l with
  | nil => rfl
  | cons a t => simp only [uniqueBy]; rw [uniqueAux_sorted a t hs]

/-- re-inserting the elements of a set into the empty set gives the set back -/
theorem insertAll_nil_sorted (hswo : SWO lt) (l : List α) (hs : Sorted lt l) : insertAll lt [] l = l := by
  rw [← uniqueBy_mergeSort hswo, List.mergeSort_of_pairwise (sorted_le hswo l hs), uniqueBy_sorted l hs]

open Gen.FlatSet in
/-- the composition performed by `insert(first, last)`: append, stable sort of the tail, in-place merge, unique -/
theorem bulk_eq (hswo : SWO lt) (l : List α) (hs : Sorted lt l) (vs : List α) :
    uniqueBy (eraseDuplicates_pred lt) (inplaceMerge lt (stableSortTail lt (l ++ vs) l.length) l.length)
      = insertAll lt l vs := by
  have e1 : stableSortTail lt (l ++ vs) l.length = l ++ vs.mergeSort (leOf lt) := by
    simp [stableSortTail]; rfl
  have e2 : inplaceMerge lt (l ++ vs.mergeSort (leOf lt)) l.length = List.merge l (vs.mergeSort (leOf lt)) (leOf lt) := by
    simp [inplaceMerge]; rfl
  rw [e1, e2, merge_eq_foldr hswo l (sorted_le hswo l hs), mergeSort_eq_foldr hswo, ← List.foldr_append]
  have := foldr_insL_eq_foldl_insU hswo (l ++ vs) []
  simp only [List.foldr_nil, List.nil_append] at this
  rw [← this, uniqueBy_foldl_insU hswo _ [] List.Pairwise.nil]
  have e3 : uniqueBy (eraseDuplicates_pred lt) ([] : List α) = [] := rfl
  rw [e3, List.foldl_append, ← insertAll_eq_foldl_insV lt l [], insertAll_nil_sorted hswo l hs, ← insertAll_eq_foldl_insV]

open Gen.FlatSet in
/-- the composition performed by the range constructor / `operator=(vector&&)`: stable sort of everything, unique -/
theorem bulk_ctor_eq (hswo : SWO lt) (vs : List α) :
    uniqueBy (eraseDuplicates_pred lt) (stableSortTail lt vs 0) = insertAll lt [] vs := by
  have e1 : stableSortTail lt vs 0 = vs.mergeSort (leOf lt) := by simp [stableSortTail]; rfl
  rw [e1, uniqueBy_mergeSort hswo]

/-! ### the generated bulk members

Hypotheses: `SWO lt` (of the comparator object the member uses) and, where the set already has content, `Sorted lt l`: the
hypotheses of the model's theorems about `insertAll`.  The call counts of these members only count calls made by FlatSet's own
code (none): calls made inside `std::stable_sort` / `std::inplace_merge` / `std::unique` are not modelled. -/

theorem eraseDuplicates_eq (lt : α → α → Bool) (l : List α) :
    Gen.FlatSet.eraseDuplicates lt l = some (Gen.FlatSet.uniqueBy (Gen.FlatSet.eraseDuplicates_pred lt) l, (), 0) := rfl

/-- `insert(first, last)` (flatset.hpp:216) -/
theorem insert_range_eq (hswo : SWO lt) (l : List α) (hs : Sorted lt l) (vs : List α) :
    Gen.FlatSet.insert_range lt l vs = some (insertAll lt l vs, (), 0) := by
  simp only [Gen.FlatSet.insert_range, eraseDuplicates_eq, bulk_eq hswo l hs vs]

/-- `insert(std::initializer_list)` (flatset.hpp:224) -/
theorem insert_ilist_eq (hswo : SWO lt) (l : List α) (hs : Sorted lt l) (vs : List α) :
    Gen.FlatSet.insert_ilist lt l vs = some (insertAll lt l vs, (), 0) := by
  simp only [Gen.FlatSet.insert_ilist, insert_range_eq hswo l hs vs]

/-- `operator=(std::initializer_list)` (flatset.hpp:166): the old content is dropped -/
theorem assign_ilist_eq (hswo : SWO lt) (l : List α) (vs : List α) :
    Gen.FlatSet.assign_ilist lt l vs = some (insertAll lt [] vs, (), 0) := by
  simp only [Gen.FlatSet.assign_ilist, insert_range_eq hswo [] List.Pairwise.nil vs]

/-- `operator=(vector_type&&)` (flatset.hpp:158, AMC_NONSTD_FEATURES) -/
theorem assign_vector_eq (hswo : SWO lt) (l : List α) (v : List α) :
    Gen.FlatSet.assign_vector lt l v = some (insertAll lt [] v, (), 0) := by
  simp only [Gen.FlatSet.assign_vector, eraseDuplicates_eq, bulk_ctor_eq hswo v]

/-- the range constructor (flatset.hpp:128): the new set stores `comp`, sorts with it and removes duplicates with it -/
theorem ctor_range_eq (comp : α → α → Bool) (hswo : SWO comp) (vs : List α) :
    Gen.FlatSet.ctor_range vs comp = some (comp, insertAll comp [] vs, 0) := by
  simp only [Gen.FlatSet.ctor_range, eraseDuplicates_eq, bulk_ctor_eq hswo vs]

/-- the range constructor without comparator (flatset.hpp:135): everything is done with a default-constructed comparator -/
theorem ctor_range_alloc_eq (lt_default : α → α → Bool) (hswo : SWO lt_default) (vs : List α) :
    Gen.FlatSet.ctor_range_alloc vs lt_default = some (lt_default, insertAll lt_default [] vs, 0) := by
  simp only [Gen.FlatSet.ctor_range_alloc, ctor_range_eq lt_default hswo vs]

theorem ctor_ilist_eq (comp : α → α → Bool) (hswo : SWO comp) (vs : List α) :
    Gen.FlatSet.ctor_ilist vs comp = some (comp, insertAll comp [] vs, 0) := by
  simp only [Gen.FlatSet.ctor_ilist, insert_range_eq hswo [] List.Pairwise.nil vs]

theorem ctor_ilist_alloc_eq (lt_default : α → α → Bool) (hswo : SWO lt_default) (vs : List α) :
    Gen.FlatSet.ctor_ilist_alloc vs lt_default = some (lt_default, insertAll lt_default [] vs, 0) := by
  simp only [Gen.FlatSet.ctor_ilist_alloc, ctor_ilist_eq lt_default hswo vs]

/-- the constructor from a vector (flatset.hpp:152, AMC_NONSTD_FEATURES) -/
theorem ctor_vector_eq (comp : α → α → Bool) (hswo : SWO comp) (v : List α) :
    Gen.FlatSet.ctor_vector v comp = some (comp, insertAll comp [] v, 0) := by
  simp only [Gen.FlatSet.ctor_vector, eraseDuplicates_eq, bulk_ctor_eq hswo v]

/-! ### `merge` (both overloads) against `mergeFrom` -/

/-- one element of the model's merge loop -/
def mergeStepM (lt : α → α → Bool) (acc : List α × List α) (v : α) : List α × List α :=
  let r := insertVal lt acc.1 v
  if r.2.2 then (r.1, acc.2) else (acc.1, acc.2 ++ [v])

theorem mergeFrom_eq_foldl (lt : α → α → Bool) (l o : List α) : mergeFrom lt l o = o.foldl (mergeStepM lt) (l, []) := rfl

/-- the elements that stay are collected from left to right -/
theorem foldl_mergeStepM_kept (lt : α → α → Bool) (vs : List α) :
    ∀ (l kept : List α), vs.foldl (mergeStepM lt) (l, kept)
      = ((vs.foldl (mergeStepM lt) (l, [])).1, kept ++ (vs.foldl (mergeStepM lt) (l, [])).2) := by
  induction vs with
  | nil => intro l kept; simp
  | cons v t ih =>
    intro l kept
    have hstep : ∀ k, mergeStepM lt (l, k) v
        = if (insertVal lt l v).2.2 then ((insertVal lt l v).1, k) else (l, k ++ [v]) := fun k => rfl
    simp only [List.foldl_cons, hstep]
    cases (insertVal lt l v).2.2
    · simp only [Bool.false_eq_true, if_false, List.nil_append]
      rw [ih l (kept ++ [v]), ih l [v]]
      simp
    · simp only [if_true]
      rw [ih _ kept]

theorem foldl_mergeStepM_sorted (hswo : SWO lt) (vs : List α) :
    ∀ (l kept : List α), Sorted lt l → Sorted lt (vs.foldl (mergeStepM lt) (l, kept)).1 := by
  induction vs with
  | nil => intro l kept hs; exact hs
  | cons v t ih =>
    intro l kept hs
    have hstep : mergeStepM lt (l, kept) v
        = if (insertVal lt l v).2.2 then ((insertVal lt l v).1, kept) else (l, kept ++ [v]) := rfl
    simp only [List.foldl_cons, hstep]
    cases (insertVal lt l v).2.2
    · exact ih _ _ hs
    · exact ih _ _ (insertVal_sorted hswo l hs v)

/-- the body of the loop of `merge(FlatSet<T, C2, …>&)` is one `insert_val` -/
theorem merge_other_step_eq (lt : α → α → Bool) (l : List α) (x : α) :
    Gen.FlatSet.merge_other_merge_by_insertion_step lt l x
      = some ((insertValC lt l x).1, (insertValC lt l x).2.2.1, (insertValC lt l x).2.2.2) := by
  have hle := lowerBound_le lt l x 0 l.length
  unfold Gen.FlatSet.merge_other_merge_by_insertion_step insertValC
  generalize lowerBound lt l x 0 l.length = p at hle
  obtain ⟨i, c⟩ := p
  simp only at hle ⊢
  by_cases hi : i = l.length
  · subst hi; simp [List.insertIdx_length_self]
  · obtain ⟨y, hy⟩ := getElem?_of_lt l i (by omega)
    simp only [hi, hy, if_false]
    cases lt x y <;> simp

theorem foldErase_eq (hswo : SWO lt) (vs : List α) :
    ∀ (l kept : List α), Sorted lt l →
      ∃ c, Gen.FlatSet.foldErase (Gen.FlatSet.merge_other_merge_by_insertion_step lt) vs l kept
        = some ((vs.foldl (mergeStepM lt) (l, kept)).1, (vs.foldl (mergeStepM lt) (l, kept)).2, c) := by
  induction vs with
  | nil => intro l kept _; exact ⟨0, rfl⟩
  | cons v t ih =>
    intro l kept hs
    have heq := insertValC_eq hswo l hs v
    have h1 : (insertValC lt l v).1 = (insertVal lt l v).1 := congrArg (·.1) heq
    have h2 : (insertValC lt l v).2.2.1 = (insertVal lt l v).2.2 := congrArg (·.2.2) heq
    rw [Gen.FlatSet.foldErase, merge_other_step_eq]
    simp only [List.foldl_cons, h1, h2]
    have hstep : mergeStepM lt (l, kept) v
        = ((insertVal lt l v).1, if (insertVal lt l v).2.2 then kept else kept ++ [v]) := by
      unfold mergeStepM
      simp only
      cases hb : (insertVal lt l v).2.2
      · simp [insertVal_noop l v hb]
      · simp
    rw [hstep]
    obtain ⟨c, hc⟩ := ih (insertVal lt l v).1 (if (insertVal lt l v).2.2 then kept else kept ++ [v])
      (insertVal_sorted hswo l hs v)
    rw [hc]
    exact ⟨_, rfl⟩

/-- `merge(FlatSet<T, C2, Alloc, VecType>&)` (flatset.hpp:342), any comparator on the other set -/
theorem merge_other_eq (hswo : SWO lt) (l : List α) (hs : Sorted lt l) (lt_o : α → α → Bool) (o : List α) :
    ∃ c, Gen.FlatSet.merge_other lt l lt_o o = some ((mergeFrom lt l o).1, (mergeFrom lt l o).2, (), c) := by
  obtain ⟨c, hc⟩ := foldErase_eq hswo o l [] hs
  refine ⟨c, ?_⟩
  unfold Gen.FlatSet.merge_other
  rw [hc]
  rfl

/-! `merge(FlatSet&)` (flatset.hpp:358): the two-pointer loop.  It compares with the comparator object of `*this` only, so it
needs the OTHER set to be ordered by that comparator too (`Sorted lt o`) — with a stateful comparator type two sets of the same
type may be ordered differently; the model's `mergeFrom` has no such requirement. -/

theorem lowerIdx_append_of_lt (A B : List α) (v : α) (hA : ∀ a ∈ A, lt a v = true)
    (hB : ∀ b, B.head? = some b → lt b v = false) : lowerIdx lt (A ++ B) v = A.length := by
  unfold lowerIdx
  induction A with
  | nil =>
    cases B with
    | nil => rfl
    | cons b t => simp [hB b rfl]
  | cons a t ih =>
    simp only [List.cons_append, List.takeWhile, hA a (by simp), List.length_cons]
    rw [ih (fun x hx => hA x (List.mem_cons_of_mem _ hx))]

/-- a value above everything goes to the end -/
theorem insertVal_append_end (A : List α) (v : α) (hA : ∀ a ∈ A, lt a v = true) :
    insertVal lt A v = (A ++ [v], A.length, true) := by
  have h := lowerIdx_append_of_lt (lt := lt) A [] v hA (by simp)
  simp only [List.append_nil] at h
  unfold insertVal
  simp [h, List.insertIdx_length_self]

theorem mergeFrom_all_above (_hswo : SWO lt) (R : List α) :
    ∀ (A : List α), Sorted lt R → (∀ a ∈ A, ∀ r ∈ R, lt a r = true) →
      R.foldl (mergeStepM lt) (A, []) = (A ++ R, []) := by
  induction R with
  | nil => intro A _ _; simp
  | cons r t ih =>
    intro A hs hA
    have hs' := List.pairwise_cons.mp hs
    simp only [List.foldl_cons]
    have : mergeStepM lt (A, []) r = (A ++ [r], []) := by
      unfold mergeStepM
      simp [insertVal_append_end A r (fun a ha => hA a ha r (by simp))]
    rw [this, ih (A ++ [r]) hs'.2]
    · simp
    · intro a ha x hx
      rcases List.mem_append.mp ha with ha | ha
      · exact hA a ha x (List.mem_cons_of_mem _ hx)
      · simp only [List.mem_singleton] at ha; subst ha; exact hs'.1 x hx

theorem insertIdx_append_length (A B : List α) (x : α) : (A ++ B).insertIdx A.length x = A ++ x :: B := by
  induction A with
  | nil => simp
  | cons a t ih => simp [List.insertIdx_succ_cons, ih]

/-- the state of the two-pointer loop: `*this` = A ++ B with `first1` after A, the other set = K ++ R with `first2` after K -/
def mstate (A B K R : List α) : List α × List α × Nat × Nat × Nat × Nat :=
  (A ++ B, K ++ R, A.length, A.length + B.length, K.length, K.length + R.length)

/-- condition and body of the loop, as a function of the state -/
def mstep (lt lt_o : α → α → Bool) (s : List α × List α × Nat × Nat × Nat × Nat) :
    Option (Bool × (List α × List α × Nat × Nat × Nat × Nat) × Nat) :=
  Gen.FlatSet.merge_step lt s.1 lt_o s.2.1 s.2.2.1 s.2.2.2.1 s.2.2.2.2.1 s.2.2.2.2.2

/-- the other set is exhausted: the loop stops -/
theorem mstep_done (lt lt_o : α → α → Bool) (A B K : List α) :
    mstep lt lt_o (mstate A B K []) = some (false, mstate A B K [], 0) := by
  simp [mstep, Gen.FlatSet.merge_step, mstate]

/-- `*this` is exhausted: the rest of the other set is moved to the end, the loop stops -/
theorem mstep_tail (lt lt_o : α → α → Bool) (A K : List α) (x1 : α) (R' : List α) :
    ∃ f1 e1 f2 e2, mstep lt lt_o (mstate A [] K (x1 :: R')) = some (false, (A ++ x1 :: R', K, f1, e1, f2, e2), 0) := by
  have e1 : List.take (K.length + (R'.length + 1)) (K ++ x1 :: R') = K ++ x1 :: R' := by
    apply List.take_of_length_le; simp
  have e2 : List.drop (K.length + (R'.length + 1)) (K ++ x1 :: R') = [] := by
    apply List.drop_of_length_le; simp
  refine ⟨A.length, A.length, K.length, K.length + (R'.length + 1), ?_⟩
  simp [mstep, Gen.FlatSet.merge_step, mstate, e1, e2]

theorem mstep_lt (lt lt_o : α → α → Bool) (A B' K R' : List α) (x0 x1 : α) (h01 : lt x0 x1 = true) :
    mstep lt lt_o (mstate A (x0 :: B') K (x1 :: R')) = some (true, mstate (A ++ [x0]) B' K (x1 :: R'), 1) := by
  have hx0 : (A ++ x0 :: B')[A.length]? = some x0 := by simp
  have hx1 : (K ++ x1 :: R')[K.length]? = some x1 := by simp
  simp only [mstep, Gen.FlatSet.merge_step, mstate, hx0, hx1, h01]
  simp
  omega

theorem mstep_eqv (lt lt_o : α → α → Bool) (A B' K R' : List α) (x0 x1 : α) (h01 : lt x0 x1 = false) (h10 : lt x1 x0 = false) :
    mstep lt lt_o (mstate A (x0 :: B') K (x1 :: R')) = some (true, mstate (A ++ [x0]) B' (K ++ [x1]) R', 2) := by
  have hx0 : (A ++ x0 :: B')[A.length]? = some x0 := by simp
  have hx1 : (K ++ x1 :: R')[K.length]? = some x1 := by simp
  simp only [mstep, Gen.FlatSet.merge_step, mstate, hx0, hx1, h01, h10]
  simp
  omega

theorem mstep_gt (lt lt_o : α → α → Bool) (A B' K R' : List α) (x0 x1 : α) (h01 : lt x0 x1 = false) (h10 : lt x1 x0 = true) :
    mstep lt lt_o (mstate A (x0 :: B') K (x1 :: R')) = some (true, mstate (A ++ [x1]) (x0 :: B') K R', 2) := by
  have hx0 : (A ++ x0 :: B')[A.length]? = some x0 := by simp
  have hx1 : (K ++ x1 :: R')[K.length]? = some x1 := by simp
  have i1 : (A ++ x0 :: B').insertIdx A.length x1 = A ++ x1 :: x0 :: B' := by
    exact insertIdx_append_length A (x0 :: B') x1
  have i2 : (K ++ x1 :: R').eraseIdx K.length = K ++ R' := by
    rw [List.eraseIdx_append_of_length_le (Nat.le_refl _)]; simp
  simp only [mstep, Gen.FlatSet.merge_step, mstate, hx0, hx1, h01, h10, i1, i2]
  simp
  omega

theorem merge_loop_spec (hswo : SWO lt) (lt_o : α → α → Bool) (n : Nat) :
    ∀ (A B K R : List α), B.length + R.length < n → Sorted lt (A ++ B) → Sorted lt R →
      (∀ a ∈ A, ∀ r ∈ R, lt a r = true) →
      ∃ f1 e1 f2 e2 c,
        Gen.FlatSet.whileFuel (mstep lt lt_o) n (mstate A B K R)
        = some (((R.foldl (mergeStepM lt) (A ++ B, [])).1, K ++ (R.foldl (mergeStepM lt) (A ++ B, [])).2, f1, e1, f2, e2), c) := by
  induction n with
  | zero => intro A B K R h; omega
  | succ n ih =>
    intro A B K R hn hsL hsR hAR
    rw [Gen.FlatSet.whileFuel]
    cases R with
    | nil =>
      rw [mstep_done]
      simp only [Bool.false_eq_true, if_false, List.foldl_nil, List.append_nil, mstate]
      exact ⟨_, _, _, _, _, rfl⟩
    | cons x1 R' =>
      cases B with
      | nil =>
        obtain ⟨f1, e1, f2, e2, h⟩ := mstep_tail lt lt_o A K x1 R'
        have hall := mergeFrom_all_above hswo (x1 :: R') A hsR hAR
        rw [h]
        simp only [List.append_nil, hall, Bool.false_eq_true, if_false]
        exact ⟨_, _, _, _, _, rfl⟩
      | cons x0 B' =>
        have hsR' := List.pairwise_cons.mp hsR
        have hAx1 : ∀ a ∈ A, lt a x1 = true := fun a ha => hAR a ha x1 (by simp)
        cases h01 : lt x0 x1
        · cases h10 : lt x1 x0
          · -- equivalent: both advance, x1 stays in the other set
            rw [mstep_eqv lt lt_o A B' K R' x0 x1 h01 h10]
            have hnot : insertVal lt (A ++ x0 :: B') x1 = (A ++ x0 :: B', A.length, false) := by
              have hi := lowerIdx_append_of_lt (lt := lt) A (x0 :: B') x1 hAx1 (by intro b hb; cases hb; exact h01)
              unfold insertVal
              simp [hi, h10]
            have hstep : mergeStepM lt (A ++ x0 :: B', []) x1 = (A ++ x0 :: B', [x1]) := by
              unfold mergeStepM; simp [hnot]
            simp only [List.foldl_cons, hstep, if_true]
            rw [foldl_mergeStepM_kept lt R' (A ++ x0 :: B') [x1]]
            have hA' : ∀ a ∈ A ++ [x0], ∀ r ∈ R', lt a r = true := by
              intro a ha r hr
              rcases List.mem_append.mp ha with ha | ha
              · exact hAR a ha r (List.mem_cons_of_mem _ hr)
              · simp only [List.mem_singleton] at ha; subst ha
                rcases hswo.cotrans x1 a r (hsR'.1 r hr) with h' | h'
                · rw [h10] at h'; cases h'
                · exact h'
            obtain ⟨f1, e1, f2, e2, c, hc⟩ := ih (A ++ [x0]) B' (K ++ [x1]) R'
              (by simp only [List.length_cons] at hn; omega) (by simpa using hsL) hsR'.2 hA'
            rw [hc]
            simp only [List.append_assoc, List.singleton_append]
            exact ⟨_, _, _, _, _, rfl⟩
          · -- x1 < x0 : x1 moves in front of x0
            rw [mstep_gt lt lt_o A B' K R' x0 x1 h01 h10]
            have hins : insertVal lt (A ++ x0 :: B') x1 = (A ++ x1 :: x0 :: B', A.length, true) := by
              have hi := lowerIdx_append_of_lt (lt := lt) A (x0 :: B') x1 hAx1 (by intro b hb; cases hb; exact h01)
              unfold insertVal
              simp [hi, h10, insertIdx_append_length]
            have hstep : mergeStepM lt (A ++ x0 :: B', []) x1 = (A ++ x1 :: x0 :: B', []) := by
              unfold mergeStepM; simp [hins]
            simp only [List.foldl_cons, hstep, if_true]
            have hA' : ∀ a ∈ A ++ [x1], ∀ r ∈ R', lt a r = true := by
              intro a ha r hr
              rcases List.mem_append.mp ha with ha | ha
              · exact hAR a ha r (List.mem_cons_of_mem _ hr)
              · simp only [List.mem_singleton] at ha; subst ha; exact hsR'.1 r hr
            have hsL' : Sorted lt ((A ++ [x1]) ++ x0 :: B') := by
              have := insertVal_sorted hswo (A ++ x0 :: B') hsL x1
              rw [hins] at this
              simpa using this
            obtain ⟨f1, e1, f2, e2, c, hc⟩ := ih (A ++ [x1]) (x0 :: B') K R'
              (by simp only [List.length_cons] at hn ⊢; omega) hsL' hsR'.2 hA'
            rw [hc]
            simp only [List.append_assoc, List.singleton_append]
            exact ⟨_, _, _, _, _, rfl⟩
        · -- x0 < x1 : first1 advances
          rw [mstep_lt lt lt_o A B' K R' x0 x1 h01]
          have hA' : ∀ a ∈ A ++ [x0], ∀ r ∈ x1 :: R', lt a r = true := by
            intro a ha r hr
            rcases List.mem_append.mp ha with ha | ha
            · exact hAR a ha r hr
            · simp only [List.mem_singleton] at ha; subst ha
              rcases List.mem_cons.mp hr with rfl | hr
              · exact h01
              · exact hswo.trans _ _ _ h01 (hsR'.1 r hr)
          obtain ⟨f1, e1, f2, e2, c, hc⟩ := ih (A ++ [x0]) B' K (x1 :: R')
            (by simp only [List.length_cons] at hn ⊢; omega) (by simpa using hsL) hsR hA'
          simp only [if_true]
          rw [hc]
          simp only [List.append_assoc, List.singleton_append]
          exact ⟨_, _, _, _, _, rfl⟩

/-- the insertion loop inlined into `merge(FlatSet&)` is, textually, the one inlined into `merge(FlatSet<T, C2, …>&)` -/
theorem merge_ins_step_eq (lt : α → α → Bool) :
    Gen.FlatSet.merge_merge_by_insertion_step lt = Gen.FlatSet.merge_other_merge_by_insertion_step lt := rfl

/-- `merge(FlatSet&)`: with a stateless comparator type the two-pointer loop, which needs the other set to be ordered by the
    comparator object of `*this`; with a comparator type that carries state the insertion loop, which does not (before the repair
    of V25 the two-pointer loop ran in both cases and `Sorted lt o` was needed unconditionally) -/
theorem merge_eq (hswo : SWO lt) (l : List α) (hs : Sorted lt l) (lt_o : α → α → Bool) (o : List α) (stateless : Bool)
    (ho : stateless = true → Sorted lt o) :
    ∃ c, Gen.FlatSet.merge lt l lt_o o stateless = some ((mergeFrom lt l o).1, (mergeFrom lt l o).2, (), c) := by
  cases stateless with
  | true =>
    obtain ⟨f1, e1, f2, e2, c, hc⟩ := merge_loop_spec hswo lt_o (l.length + o.length + 1) [] l [] o (by omega)
      (by simpa using hs) (ho rfl) (by intro a ha; cases ha)
    simp only [mstate, List.nil_append, List.length_nil, Nat.zero_add] at hc
    refine ⟨c, ?_⟩
    unfold Gen.FlatSet.merge
    have : (fun s : List α × List α × Nat × Nat × Nat × Nat =>
        Gen.FlatSet.merge_step lt s.1 lt_o s.2.1 s.2.2.1 s.2.2.2.1 s.2.2.2.2.1 s.2.2.2.2.2) = mstep lt lt_o := rfl
    rw [this]
    simp only [if_true]
    rw [hc]
    rfl
  | false =>
    obtain ⟨c, hc⟩ := foldErase_eq hswo o l [] hs
    refine ⟨c, ?_⟩
    unfold Gen.FlatSet.merge
    rw [merge_ins_step_eq, hc]
    rfl

/-- all objects of a stateless comparator type compare alike: the other set, ordered by its own comparator object, is then
    ordered by the one of `*this`, and `merge(FlatSet&)` needs nothing but the invariants of the two sets -/
theorem merge_eq_inv (hswo : SWO lt) (l : List α) (hs : Sorted lt l) (lt_o : α → α → Bool) (o : List α) (stateless : Bool)
    (ho : Sorted lt_o o) (hst : stateless = true → lt_o = lt) :
    ∃ c, Gen.FlatSet.merge lt l lt_o o stateless = some ((mergeFrom lt l o).1, (mergeFrom lt l o).2, (), c) :=
  merge_eq hswo l hs lt_o o stateless (fun h => hst h ▸ ho)

end AmcVerif.Bridge.FlatSet
