import AmcVerif.Lemmas.VecOpsD
import AmcVerif.Bridge.VecLawsU64
/-! Instance of `ShrinkLaws` (Lemmas/VecOpsD.lean) for the *generated* `shrink_impl` members of size type U64
(SmallVectorBase `SVB.shrink_impl`, StdVectorBase `DVB.shrink_impl`, StaticVectorBase `FVB.shrink_impl`), from the lemmas of
Bridge/SmallLawsU64.lean (`shrinkImpl_law`, `shrinkImpl_effs`, `bounds`, `begin_small`) plus two facts about the pointer word
(`shrinkImpl_same`, `shrinkImpl_dyn`). Written so that replacing `U64` textually by another size-type tag gives the other
instances (template candidate: Bridge/ShrinkLaws.lean.in). -/
namespace AmcVerif.Bridge.U64
open AmcVerif AmcVerif.Gen.U64

/- ------------------------------------------------------------------------------------------------------------
   SmallVectorBase
   ------------------------------------------------------------------------------------------------------------ -/

/-- `shrink_impl` does nothing at all in inline state and when the heap block is exactly full -/
theorem shrinkImpl_same (N : Nat) (t : VB) (fresh : Nat) :
    (SVB.isSmall t = true → SVB.shrink_impl t N fresh = (t, []))
    ∧ (SVB.isSmall t = false → N < SVB.size t → SVB.size t = SVB.capacity t → SVB.shrink_impl t N fresh = (t, [])) := by
  unfold SVB.shrink_impl SVB.isSmall SVB.size SVB.capacity
  constructor
  · intro h
    simp only [decide_eq_true_eq] at h
    repeat' split
    all_goals first | rfl | (exfalso; simp_all <;> omega)
  · intro h h1 h2
    simp only [decide_eq_false_iff_not] at h
    simp only [h, decide_false, Bool.false_and, Bool.false_eq_true, ↓reduceIte] at h1 h2
    repeat' split
    all_goals first | rfl | (exfalso; simp_all <;> omega)

/-- the pointer word after a reallocating `shrink_impl` is the new block -/
theorem shrinkImpl_dyn (N : Nat) (t : VB) (fresh : Nat) (hL : SVB.isSmall t = false) (h1 : N < SVB.size t)
    (h2 : SVB.size t ≠ SVB.capacity t) : (SVB.shrink_impl t N fresh).1.dyn = PtrV.blk fresh := by
  unfold SVB.shrink_impl
  unfold SVB.isSmall SVB.size SVB.capacity at *
  simp only [decide_eq_false_iff_not] at hL
  simp only [hL, decide_false, Bool.false_and, Bool.false_eq_true, ↓reduceIte] at h1 h2
  have h3 : ¬ t.size ≤ N := by omega
  simp [hL, h3, h2]

theorem svbOps_kMax : svbOps.kMax = kMax := rfl
theorem svbOps_size (t : VB) : svbOps.size t = SVB.size t := rfl
theorem svbOps_capacity (t : VB) : svbOps.capacity t = SVB.capacity t := rfl
theorem svbOps_begin (t : VB) : svbOps.begin t = SVB.begin t := rfl
theorem svbOps_isSmall (t : VB) : svbOps.isSmall t = SVB.isSmall t := rfl
theorem svbOps_shrinkImpl (t : VB) (n fresh : Nat) : svbOps.shrinkImpl t n fresh = SVB.shrink_impl t n fresh := rfl

/-- `ShrinkLaws` of `SmallVector<T, N, Alloc, U64 size type>` (any side condition `P` on block identifiers) -/
theorem small_shrinkLawsP (cfg : Cfg) (hfl : cfg.flavour = .small) (hops : cfg.ops = svbOps) (hN : cfg.n < kMax) (hN0 : 0 < cfg.n)
    (P : Nat → Prop) : ShrinkLawsP cfg (SOkP P cfg.ops cfg.n) P := by
  obtain ⟨fl, N, ops, chk, aid⟩ := cfg
  dsimp only at hfl hops hN hN0
  subst hfl hops
  -- the facts about the generated member, case by case
  have key : ∀ t, SOkP P svbOps N t → ∀ fresh,
      SVB.size t ≤ SVB.capacity t ∧
      ((SVB.isSmall t = true ∧ SVB.capacity t = N ∧ SVB.shrink_impl t N fresh = (t, []))
      ∨ (SVB.isSmall t = false ∧ SVB.size t ≤ N ∧ SRep N kMax (SVB.shrink_impl t N fresh).1
          ∧ SVB.isSmall (SVB.shrink_impl t N fresh).1 = true ∧ SVB.capacity (SVB.shrink_impl t N fresh).1 = N
          ∧ SVB.size (SVB.shrink_impl t N fresh).1 = SVB.size t
          ∧ (SVB.shrink_impl t N fresh).2 = [Eff.relocN t.dyn (SVB.size t) (PtrV.inl 0), Eff.dealloc t.dyn (SVB.capacity t)])
      ∨ (SVB.isSmall t = false ∧ N < SVB.size t ∧ SVB.size t ≠ SVB.capacity t ∧ SRep N kMax (SVB.shrink_impl t N fresh).1
          ∧ SVB.isSmall (SVB.shrink_impl t N fresh).1 = false ∧ SVB.capacity (SVB.shrink_impl t N fresh).1 = SVB.size t
          ∧ SVB.size (SVB.shrink_impl t N fresh).1 = SVB.size t ∧ (SVB.shrink_impl t N fresh).1.dyn = PtrV.blk fresh
          ∧ (SVB.shrink_impl t N fresh).2 =
              [Eff.realloc t.dyn (SVB.capacity t) (SVB.size t) (SVB.size t) (PtrV.blk fresh), Eff.setDyn 0])
      ∨ (SVB.isSmall t = false ∧ N < SVB.size t ∧ SVB.size t = SVB.capacity t ∧ SVB.shrink_impl t N fresh = (t, []))) := by
    intro t hok fresh
    have hrep : SRep N kMax t := hok.1
    obtain ⟨hb1, _, hb3⟩ := bounds N hN t hrep
    obtain ⟨l1, l2, _, l4, l5⟩ := shrinkImpl_law N hN t hrep fresh
    obtain ⟨_, e2, e3, _⟩ := shrinkImpl_effs N hN t hrep fresh
    obtain ⟨s1, s2⟩ := shrinkImpl_same N t fresh
    refine ⟨hb1, ?_⟩
    cases hs : SVB.isSmall t with
    | true => exact Or.inl ⟨rfl, hb3 hs, s1 hs⟩
    | false =>
      by_cases hfit : SVB.size t ≤ N
      · exact Or.inr (Or.inl ⟨rfl, hfit, l1, (l4 hs hfit).1, (l4 hs hfit).2, l2, e2 hs hfit⟩)
      · have hgt : N < SVB.size t := by omega
        by_cases heq : SVB.size t = SVB.capacity t
        · exact Or.inr (Or.inr (Or.inr ⟨rfl, hgt, heq, s2 hs hgt heq⟩))
        · exact Or.inr (Or.inr (Or.inl ⟨rfl, hgt, heq, l1, (l5 hs hgt).1, (l5 hs hgt).2, l2,
            shrinkImpl_dyn N t fresh hs hgt heq, e3 hs hgt heq⟩))
  constructor
  · intro t hok fresh hP
    obtain ⟨hle, hk⟩ := key t hok fresh
    unfold ShrinkCase
    dsimp only
    simp only [svbOps_size, svbOps_capacity, svbOps_begin, svbOps_shrinkImpl, begin_small]
    rcases hk with ⟨hs, _, hsame⟩ | ⟨hs, hfit, r1, r2, r3, r4, r5⟩ | ⟨hs, hgt, hne, r1, r2, r3, r4, r5, r6⟩ | ⟨hs, _, _, hsame⟩
    · rw [hsame]
      exact Or.inl ⟨rfl, hok, rfl, rfl, rfl⟩
    · refine Or.inr (Or.inl ⟨trivial, hfit, ⟨r1, fun hf => ?_⟩, by rw [r2]; rfl, r3, r4, ?_⟩)
      · rw [svbOps_isSmall, r2] at hf; cases hf
      · rw [hs]
        simp only [Bool.false_eq_true, ↓reduceIte]
        rcases hok.2 hs with ⟨id, hd, _, hpos⟩ | ⟨hd, hc0⟩
        · exact Or.inl ⟨id, hd, hpos, by rw [r5, hd]⟩
        · rw [svbOps_capacity] at hc0
          exact Or.inr ⟨hd, hc0, by rw [r5, hd, hc0]⟩
    · rcases hok.2 hs with ⟨id, hd, _, hpos⟩ | ⟨_, hc0⟩
      · refine Or.inr (Or.inr (Or.inl ⟨id, by rw [hs]; exact hd, by omega, by omega, ⟨r1, fun _ => Or.inl ⟨fresh, r5, hP, ?_⟩⟩,
          by rw [r2]; exact r5, r3, r4, ?_⟩))
        · rw [svbOps_capacity, r3]; omega
        · rw [r6, hd]; rfl
      · rw [svbOps_capacity] at hc0; omega
    · rw [hsame]
      exact Or.inl ⟨rfl, hok, rfl, rfl, rfl⟩
  · intro t hok fresh
    obtain ⟨hle, hk⟩ := key t hok fresh
    unfold shrinkCap
    dsimp only
    simp only [svbOps_size, svbOps_capacity, svbOps_shrinkImpl]
    rcases hk with ⟨hs, hcN, hsame⟩ | ⟨hs, hfit, r1, r2, r3, r4, r5⟩ | ⟨hs, hgt, hne, r1, r2, r3, r4, r5, r6⟩ | ⟨hs, hgt, heq, hsame⟩
    · rw [hsame]; dsimp only; rw [Nat.max_def]; split <;> omega
    · rw [r3, Nat.max_def]; split <;> omega
    · rw [r3, Nat.max_def]; split <;> omega
    · rw [hsame]; dsimp only; rw [Nat.max_def]; split <;> omega

/-- `ShrinkLaws` of `SmallVector<T, N, Alloc, U64 size type>` for the invariant `SOkW` of `small_vecLaws` -/
theorem small_shrinkLaws (cfg : Cfg) (hfl : cfg.flavour = .small) (hops : cfg.ops = svbOps) (hN : cfg.n < kMax) (hN0 : 0 < cfg.n) :
    ShrinkLaws cfg (SOkW cfg.ops cfg.n) :=
  small_shrinkLawsP cfg hfl hops hN hN0 (fun _ => True)

/- ------------------------------------------------------------------------------------------------------------
   StdVectorBase (amc::vector)
   ------------------------------------------------------------------------------------------------------------ -/

theorem dvbOps_kMax : dvbOps.kMax = kMax := rfl
theorem dvbOps_size (t : VB) : dvbOps.size t = t.size := rfl
theorem dvbOps_capacity (t : VB) : dvbOps.capacity t = t.capa := rfl
theorem dvbOps_begin (t : VB) : dvbOps.begin t = t.dyn := rfl
theorem dvbOps_shrinkImpl (t : VB) (n fresh : Nat) : dvbOps.shrinkImpl t n fresh = DVB.shrink_impl t n fresh := rfl

/-- the three behaviours of the generated `DVB.shrink_impl` -/
theorem dvb_shrink_cases (t : VB) (n fresh : Nat) :
    (t.size = t.capa → DVB.shrink_impl t n fresh = (t, []))
    ∧ (t.size ≠ t.capa → t.size = 0 → DVB.shrink_impl t n fresh = (⟨t.size, t.size, PtrV.null⟩, [Eff.dealloc t.dyn t.capa]))
    ∧ (t.size ≠ t.capa → t.size ≠ 0 → DVB.shrink_impl t n fresh =
        (⟨t.size, t.size, PtrV.blk fresh⟩, [Eff.realloc t.dyn t.capa t.size t.size (PtrV.blk fresh)])) := by
  unfold DVB.shrink_impl
  refine ⟨fun h => ?_, fun h h0 => ?_, fun h h0 => ?_⟩
  all_goals
    repeat' split
    all_goals first | rfl | (exfalso; simp_all <;> omega)

/-- `ShrinkLaws` of `amc::vector<T, Alloc, U64 size type>` (any side condition `P` on block identifiers) -/
theorem std_shrinkLawsP (cfg : Cfg) (hfl : cfg.flavour = .std) (hops : cfg.ops = dvbOps) (P : Nat → Prop) :
    ShrinkLawsP cfg (DOkP P cfg.ops.kMax) P := by
  obtain ⟨fl, N, ops, chk, aid⟩ := cfg
  dsimp only at hfl hops
  subst hfl hops
  constructor
  · intro t hok fresh hP
    obtain ⟨c1, c2, c3⟩ := dvb_shrink_cases t N fresh
    obtain ⟨h1, h2, h3⟩ := hok
    unfold ShrinkCase
    dsimp only
    simp only [dvbOps_size, dvbOps_capacity, dvbOps_begin, dvbOps_shrinkImpl]
    by_cases heq : t.size = t.capa
    · rw [c1 heq]
      exact Or.inl ⟨rfl, ⟨h1, h2, h3⟩, rfl, rfl, rfl⟩
    · rcases h3 with ⟨id, hd, _, hpos⟩ | ⟨_, hc0⟩
      · by_cases hz : t.size = 0
        · rw [c2 heq hz]
          refine Or.inr (Or.inr (Or.inr ⟨id, hd, hpos, hz, ⟨Nat.le_refl _, ?_, Or.inr ⟨rfl, hz⟩⟩, hz, hz, by rw [hd]⟩))
          show t.size ≤ kMax
          rw [hz]; exact Nat.zero_le _
        · rw [c3 heq hz]
          refine Or.inr (Or.inr (Or.inl ⟨id, hd, by omega, by omega,
            ⟨Nat.le_refl _, ?_, Or.inl ⟨fresh, rfl, hP, by show 0 < t.size; omega⟩⟩, rfl, rfl, rfl, by rw [hd]; rfl⟩))
          have h2' : t.capa ≤ kMax := h2
          show t.size ≤ kMax
          omega
      · omega
  · intro t hok fresh
    obtain ⟨c1, c2, c3⟩ := dvb_shrink_cases t N fresh
    unfold shrinkCap
    dsimp only
    simp only [dvbOps_size, dvbOps_capacity, dvbOps_shrinkImpl]
    by_cases heq : t.size = t.capa
    · rw [c1 heq]; exact heq.symm
    · by_cases hz : t.size = 0
      · rw [c2 heq hz]
      · rw [c3 heq hz]

/-- `ShrinkLaws` of `amc::vector<T, Alloc, U64 size type>` for the invariant `DOkW` of `std_vecLaws` -/
theorem std_shrinkLaws (cfg : Cfg) (hfl : cfg.flavour = .std) (hops : cfg.ops = dvbOps) : ShrinkLaws cfg (DOkW cfg.ops.kMax) :=
  std_shrinkLawsP cfg hfl hops (fun _ => True)

/- ------------------------------------------------------------------------------------------------------------
   StaticVectorBase (FixedCapacityVector): `shrink_to_fit` is a no-op
   ------------------------------------------------------------------------------------------------------------ -/

theorem fvbOps_shrinkImpl (t : VB) (n fresh : Nat) : fvbOps.shrinkImpl t n fresh = (t, []) := rfl

/-- `ShrinkLaws` of `FixedCapacityVector<T, N>` -/
theorem fixed_shrinkLaws (cfg : Cfg) (hfl : cfg.flavour = .fixed) (hops : cfg.ops = fvbOps) : ShrinkLaws cfg (FOk cfg.n) := by
  obtain ⟨fl, N, ops, chk, aid⟩ := cfg
  dsimp only at hfl hops
  subst hfl hops
  constructor
  · intro t hok fresh _
    unfold ShrinkCase
    dsimp only
    rw [fvbOps_shrinkImpl]
    exact Or.inl ⟨rfl, hok, rfl, rfl, rfl⟩
  · intro t hok fresh
    unfold shrinkCap
    dsimp only
    rw [fvbOps_shrinkImpl]

/-- `shrink_to_fit()` of the three flavours over the generated U64 members: strong guarantee -/
theorem shrinkToFit_small (α : Type) (cfg : Cfg) (hfl : cfg.flavour = .small) (hops : cfg.ops = svbOps) (hN : cfg.n < kMax)
    (hN0 : 0 < cfg.n) (m : Mem α) (c : Nat) (xs : List α) (w : VB) (h : VRepW cfg (SOkW cfg.ops cfg.n) c m xs w) (hf : Fresh m) :
    Post (shrinkToFit cfg c) m (StrongPostI cfg (SOkW cfg.ops cfg.n) c m w xs xs ()) :=
  shrinkToFit_post (small_vecLaws α cfg hfl hops hN hN0) (small_shrinkLaws cfg hfl hops hN hN0) m c xs w h hf

theorem shrinkToFit_std (α : Type) (cfg : Cfg) (hfl : cfg.flavour = .std) (hops : cfg.ops = dvbOps)
    (m : Mem α) (c : Nat) (xs : List α) (w : VB) (h : VRepW cfg (DOkW cfg.ops.kMax) c m xs w) (hf : Fresh m) :
    Post (shrinkToFit cfg c) m (StrongPost cfg (DOkW cfg.ops.kMax) c m w xs xs ()) :=
  shrinkToFit_strong (std_vecLaws α cfg hfl hops) (std_shrinkLaws cfg hfl hops) m c xs w h hf (Or.inl (by rw [hfl]; simp))

theorem shrinkToFit_fixed (α : Type) (cfg : Cfg) (hfl : cfg.flavour = .fixed) (hops : cfg.ops = fvbOps) (hchk : cfg.checked = true)
    (m : Mem α) (c : Nat) (xs : List α) (w : VB) (h : VRepW cfg (FOk cfg.n) c m xs w) (hf : Fresh m) :
    Post (shrinkToFit cfg c) m (StrongPost cfg (FOk cfg.n) c m w xs xs ()) :=
  shrinkToFit_strong (fixed_vecLaws α cfg hfl hops hchk) (fixed_shrinkLaws cfg hfl hops) m c xs w h hf (Or.inl (by rw [hfl]; simp))

end AmcVerif.Bridge.U64
