/-! # Static contract model (property C17)

A small, total, computable model of the compile-time facts of the amc containers. Core Lean only.

* `Ty` / `Ty.isTR` — `amc::is_trivially_relocatable` (type_traits.hpp): the detection of a nested
  `trivially_relocatable` typedef, the `std::pair` specialisation and the typedefs the containers declare.
* `kNbSlots`, `SA` (size/alignment), `place` — Itanium-ABI style sequential member placement, used for the three
  vector bases of vectorcommon.hpp.
* `smallestSizeType` — fixedcapacityvector.hpp `SmallestSizeType<N>`.
* `ElemTraits`, `moveCtorNoexcept` … — the `noexcept` specifications of `Vector(Vector&&)`, `operator=(Vector&&)`, `swap`.
* `evalLine` — evaluator used by tools/props/C17.py: one input line of numbers (a cell of the matrix, with the
  COMPILER's `sizeof(T)`, `alignof(T)` and std traits of the element type) → the model's values for that cell.

Tie: this file is hand-written after the headers (the translator does not yet emit these formulas); it is tied to the
code by the correspondence check only — every cell of the matrix of harness/static_matrix.cpp is compared with
`evalLine`. Assumptions of the layout part: LP64 (pointer size and alignment 8), the allocator is an empty class
(empty-base optimisation, `amc::allocator<T>`), and every class of the Vector hierarchy is non-POD in the sense of the
Itanium ABI (user-provided constructors), so that a derived class' members start in the tail padding of its base. -/
namespace AmcVerif.Layout

/-! ## (a) is_trivially_relocatable -/

/-- `amc::is_trivially_relocatable<T>` for a class without specialisation. `declared = some true`: the class declares
`using trivially_relocatable = std::true_type`; `some false`: it declares the typedef as anything else
(`std::false_type` opts out; `is_same<…, std::true_type>` is false for every other type too); `none`: no declaration,
the default `std::is_trivially_copyable<T>` applies. -/
def isTR (declared : Option Bool) (triviallyCopyable : Bool) : Bool :=
  match declared with
  | some b => b
  | none => triviallyCopyable

/-- `is_trivially_relocatable<std::pair<T, U>>` -/
def isTRPair (trT trU : Bool) : Bool := trT && trU

/-- `StdVectorBase::trivially_relocatable = std::true_type` -/
def trVector : Bool := true
/-- `SmallVector<T, N>`: `N = 0` is `amc::vector` (StdVectorBase); otherwise SmallVectorBase: relocatable iff `T` is -/
def trSmallVector (N : Nat) (trT : Bool) : Bool := N == 0 || trT
/-- `FixedCapacityVector<T, N>` (StaticVectorBase): relocatable iff `T` is -/
def trFixedCapacityVector (trT : Bool) : Bool := trT
/-- `FlatSet<T, Compare, Alloc, VecType>` -/
def trFlatSet (trCompare trVec : Bool) : Bool := trCompare && trVec
/-- `SmallSet<T, N, Compare, Alloc, SetType>` with `VecType = FixedCapacityVector<T, N, Unchecked>` -/
def trSmallSet (trVec trSet : Bool) : Bool := trVec && trSet

/-- the types the trait is asked about -/
inductive Ty where
  /-- a class (or scalar) described by its declaration and its trivial copyability, e.g. `int = cls none true`,
      `std::less<T> = cls none true`, `std::set<…> = cls none false` -/
  | cls (declared : Option Bool) (triviallyCopyable : Bool)
  | pair (a b : Ty)
  | vector (elem : Ty)
  | smallVector (elem : Ty) (N : Nat)
  | fixedCapacityVector (elem : Ty) (N : Nat)
  | flatSet (compare vec : Ty)
  | smallSet (vec set : Ty)
  deriving Repr, DecidableEq

def Ty.isTR : Ty → Bool
  | .cls d tc => Layout.isTR d tc
  | .pair a b => isTRPair a.isTR b.isTR
  | .vector _ => trVector
  | .smallVector e N => trSmallVector N e.isTR
  | .fixedCapacityVector e _ => trFixedCapacityVector e.isTR
  | .flatSet c v => trFlatSet c.isTR v.isTR
  | .smallSet v s => trSmallSet v.isTR s.isTR

/-- the parts whose relocatability a container's typedef is the conjunction of -/
def Ty.parts : Ty → List Ty
  | .cls _ _ => []
  | .pair a b => [a, b]
  | .vector _ => []
  | .smallVector e N => if N = 0 then [] else [e]
  | .fixedCapacityVector e _ => [e]
  | .flatSet c v => [c, v]
  | .smallSet v s => [v, s]

/-- relocatable "by the book": the three ways the property statement names -/
inductive Reloc : Ty → Prop where
  | declaredTrue (tc : Bool) : Reloc (.cls (some true) tc)
  | copyable : Reloc (.cls none true)
  | pair {a b : Ty} : a.isTR = true → b.isTR = true → Reloc (.pair a b)

/-! ## (b) pointer/element union -/

def ptrSize : Nat := 8
def ptrAlign : Nat := 8

/-- `ElemWithPtrStorage<T>::kNbSlots`, C++14 arm (`std::max(sizeof(pointer) / sizeof(T), 1)`) -/
def kNbSlots (sizeofT : Nat) : Nat := max 1 (ptrSize / sizeofT)
/-- the pre-C++14 arm of the same `#if` ladder (`sizeof(pointer) < sizeof(T) ? 1 : sizeof(pointer) / sizeof(T)`) -/
def kNbSlots11 (sizeofT : Nat) : Nat := if ptrSize < sizeofT then 1 else ptrSize / sizeofT

/-! ## (c) layout -/

/-- size and alignment of a type -/
structure SA where
  size : Nat
  align : Nat
  deriving Repr, DecidableEq

def roundUp (x a : Nat) : Nat := (x + a - 1) / a * a

/-- place one member after `off` bytes: (its offset, the end of the member) -/
def placeAt (off : Nat) (m : SA) : Nat × Nat := (roundUp off m.align, roundUp off m.align + m.size)

/-- sequential placement of non-static data members (no bit-fields, no virtual bases): returns (dsize, align) -/
def place (members : List SA) : Nat × Nat :=
  members.foldl (fun (acc : Nat × Nat) m => ((placeAt acc.1 m).2, max acc.2 m.align)) (0, 1)

/-- a class made of the given members (in the order of declaration, base class members first) -/
def classOf (members : List SA) : SA :=
  let p := place members
  ⟨roundUp (max p.1 1) p.2, p.2⟩

def scalar (n : Nat) : SA := ⟨n, n⟩
/-- `ElemStorage<T>`: `alignas(T) uint8_t _el[sizeof(T)]` -/
def elemStorage (sT aT : Nat) : SA := classOf [⟨sT, aT⟩]
/-- `ElemWithPtrStorage<T>`: `alignas(max(alignof T, alignof T*)) uint8_t _el[max(sizeof T, sizeof T*)]` -/
def elemWithPtrStorage (sT aT : Nat) : SA := classOf [⟨max sT ptrSize, max aT ptrAlign⟩]
/-- the pre-C++14 arm of the same member declaration -/
def elemWithPtrStorage11 (sT aT : Nat) : SA :=
  classOf [⟨if ptrSize < sT then sT else ptrSize, if ptrAlign < aT then aT else ptrAlign⟩]
/-- an array `ElemStorage<T> _elems[n]` -/
def elemArray (sT aT n : Nat) : SA := ⟨n * (elemStorage sT aT).size, aT⟩

/-- `amc::vector<T, Alloc, S>`: StdVectorBase `{S _capa; S _size; T* _storage}`, empty allocator base -/
def vectorMembers (sS : Nat) : List SA := [scalar sS, scalar sS, ⟨ptrSize, ptrAlign⟩]
def vectorSA (sS : Nat) : SA := classOf (vectorMembers sS)

/-- `SmallVector<T, N, Alloc, S>`, `N > 0`: SmallVectorBase `{S _capa, _size; ElemWithPtrStorage<T> _storage}` and, in
VectorWithInplaceStorage, `ElemStorage<T> _elems[N - kNbSlots]` when `N > kNbSlots` -/
def smallVectorMembers (sT aT N sS : Nat) : List SA :=
  [scalar sS, scalar sS, elemWithPtrStorage sT aT] ++
    (if kNbSlots sT < N then [elemArray sT aT (N - kNbSlots sT)] else [])
def smallVectorSA (sT aT N sS : Nat) : SA :=
  if N = 0 then vectorSA sS else classOf (smallVectorMembers sT aT N sS)
/-- offset of the inline buffer (`_storage`) in a SmallVector with `N > 0` -/
def smallVectorBufOffset (aT sS : Nat) : Nat := roundUp (2 * sS) (max aT ptrAlign)

/-- `FixedCapacityVector<T, N, G, S>`: StaticVectorBase `{const S _capa; S _size; ElemStorage<T> _firstEl}` and
`ElemStorage<T> _elems[N - 1]` when `N > 1` (so `N = 0` still holds one slot) -/
def fixedCapacityVectorMembers (sT aT N sS : Nat) : List SA :=
  [scalar sS, scalar sS, elemStorage sT aT] ++ (if 1 < N then [elemArray sT aT (N - 1)] else [])
def fixedCapacityVectorSA (sT aT N sS : Nat) : SA := classOf (fixedCapacityVectorMembers sT aT N sS)
def fixedCapacityVectorBufOffset (aT sS : Nat) : Nat := roundUp (2 * sS) aT

/-! ## (d) SmallestSizeType -/

/-- bytes of `vec::SmallestSizeType<N>::type` -/
def smallestSizeType (N : Nat) : Nat :=
  if N ≤ 255 then 1 else if N ≤ 65535 then 2 else if N ≤ 4294967295 then 4 else 8

/-- `std::numeric_limits<uintB_t>::max()` for a type of `b` bytes -/
def umax (b : Nat) : Nat := 2 ^ (8 * b) - 1

/-! ## triviality of the destructor -/

/-- `WithInlineElements` as VectorWithInplaceStorage passes it to VectorImpl for a FixedCapacityVector: the
NoInlineStorage specialisation (N = 0, N = 1) passes `N != 0`, the primary template passes `true` -/
def fcvWithInlineElements (N : Nat) : Bool := N != 0
/-- `DefineDestructor<T, WithInlineElements>`: `!is_trivially_destructible<T>` or, without inline elements, `true` -/
def defineDestructor (tdT withInline : Bool) : Bool := if withInline then !tdT else true
/-- `DefineVectorDestructor<T, WithInlineElements, GrowingPolicy>`: a vector with a static growing policy always counts as
having inline elements (repair of V23) -/
def defineVectorDestructor (tdT withInline dynamicPolicy : Bool) : Bool := defineDestructor tdT (withInline || !dynamicPolicy)
/-- `std::is_trivially_destructible<FixedCapacityVector<T, N>>` as the code stands -/
def fcvTriviallyDestructible (N : Nat) (tdT : Bool) : Bool := !defineVectorDestructor tdT (fcvWithInlineElements N) false

/-! ## (e) noexcept specifications -/

/-- what the specifications look at -/
structure ElemTraits where
  tr : Bool                 -- amc::is_trivially_relocatable<T>
  nothrowMoveCtor : Bool    -- std::is_nothrow_move_constructible<T>
  nothrowMoveAssign : Bool  -- std::is_nothrow_move_assignable<T>
  nothrowSwappable : Bool   -- amc::is_nothrow_swappable<T>
  deriving Repr, DecidableEq

def isSwapNoexcept (e : ElemTraits) : Bool := e.nothrowMoveCtor && e.nothrowSwappable
def isShiftNothrow (e : ElemTraits) : Bool := e.tr || (e.nothrowMoveCtor && e.nothrowMoveAssign)
def isMoveConstructNothrow (e : ElemTraits) : Bool := e.tr || e.nothrowMoveCtor

/-- `Vector(Vector&&) noexcept(N == 0 || is_move_construct_nothrow<T>)` -/
def moveCtorNoexcept (nIsZero : Bool) (e : ElemTraits) : Bool := nIsZero || isMoveConstructNothrow e
/-- `operator=(Vector&&) noexcept(N == 0 || is_shift_nothrow<T>)` -/
def moveAssignNoexcept (nIsZero : Bool) (e : ElemTraits) : Bool := nIsZero || isShiftNothrow e
/-- `swap(Vector&) noexcept(N == 0 || is_swap_noexcept<T>)` -/
def swapNoexcept (nIsZero : Bool) (e : ElemTraits) : Bool := nIsZero || isSwapNoexcept e

/-! ## evaluator for the correspondence check -/

def b2n (b : Bool) : Nat := if b then 1 else 0
def n2b (n : Nat) : Bool := n != 0
/-- 0 = declares `std::false_type` or another type, 1 = declares `std::true_type`, 2 = no declaration -/
def declOf (n : Nat) : Option Bool := if n = 2 then none else some (n == 1)

private def kv (k : String) (v : Nat) : String := k ++ "=" ++ toString v

/-- whitespace separated tokens of a line -/
def tokens (s : String) : List String :=
  let step (p : List String × List Char) (c : Char) : List String × List Char :=
    if c.isWhitespace then (if p.2.isEmpty then p.1 else String.ofList p.2.reverse :: p.1, []) else (p.1, c :: p.2)
  let (acc, cur) := s.toList.foldl step ([], [])
  (if cur.isEmpty then acc else String.ofList cur.reverse :: acc).reverse

/-- all tokens as natural numbers, or `none` -/
def nats (ws : List String) : Option (List Nat) := ws.mapM String.toNat?

/-- One cell. Input (all natural numbers):
`E decl tc` — element line: declaration code and `std::is_trivially_copyable`;
`C sT aT N sS decl tc nmc nma nsw td` — container line. Output: `key=value` pairs. -/
def evalLine (line : String) : String :=
  match tokens line with
  | "E" :: rest =>
    match nats rest with
    | some [decl, tc] =>
      let t := Ty.cls (declOf decl) (n2b tc)
      let int := Ty.cls none true            -- a trivially copyable type
      let ntr := Ty.cls none false           -- a non trivially copyable type without declaration
      let less := Ty.cls none true           -- std::less<T> (empty, trivially copyable)
      let stdSet := Ty.cls none false        -- std::set (not trivially copyable, no declaration)
      let fs (c v : Ty) := Ty.flatSet c v
      " ".intercalate [
        kv "trT" (b2n t.isTR),
        kv "trPairTI" (b2n (Ty.pair t int).isTR),
        kv "trPairIT" (b2n (Ty.pair int t).isTR),
        kv "trPairTT" (b2n (Ty.pair t t).isTR),
        kv "trPairTN" (b2n (Ty.pair t ntr).isTR),
        kv "trPairNest" (b2n (Ty.pair (Ty.pair t int) t).isTR),
        kv "trFsVec" (b2n (fs less (.vector t)).isTR),
        kv "trFsVecNC" (b2n (fs ntr (.vector t)).isTR),
        kv "trFsSv" (b2n (fs less (.smallVector t 5)).isTR),
        kv "trFsSvNC" (b2n (fs ntr (.smallVector t 5)).isTR),
        kv "trFsFcv" (b2n (fs less (.fixedCapacityVector t 5)).isTR),
        kv "trSsStd" (b2n (Ty.smallSet (.fixedCapacityVector t 5) stdSet).isTR),
        kv "trSsFs" (b2n (Ty.smallSet (.fixedCapacityVector t 5) (fs less (.vector t))).isTR),
        kv "trSsFsNC" (b2n (Ty.smallSet (.fixedCapacityVector t 5) (fs ntr (.vector t))).isTR),
        kv "trSsFsSv" (b2n (Ty.smallSet (.fixedCapacityVector t 5) (fs less (.smallVector t 5))).isTR)]
    | _ => "error: bad E line"
  | "C" :: rest =>
    match nats rest with
    | some [sT, aT, N, sS, decl, tc, nmc, nma, nsw, td] =>
      let t := Ty.cls (declOf decl) (n2b tc)
      let e : ElemTraits := ⟨t.isTR, n2b nmc, n2b nma, n2b nsw⟩
      let vec := vectorSA sS
      let sv := smallVectorSA sT aT N sS
      let fcv := fixedCapacityVectorSA sT aT N sS
      let z := N == 0
      " ".intercalate [
        kv "vecS" vec.size, kv "vecA" vec.align, kv "svS" sv.size, kv "svA" sv.align,
        kv "fcvS" fcv.size, kv "fcvA" fcv.align,
        kv "sst" (smallestSizeType N), kv "kNb" (kNbSlots sT),
        kv "trVec" (b2n (Ty.vector t).isTR), kv "trSv" (b2n (Ty.smallVector t N).isTR),
        kv "trFcv" (b2n (Ty.fixedCapacityVector t N).isTR),
        kv "fcvTD" (b2n (fcvTriviallyDestructible N (n2b td))),
        kv "vecMC" (b2n (moveCtorNoexcept true e)), kv "vecMA" (b2n (moveAssignNoexcept true e)),
        kv "vecSW" (b2n (swapNoexcept true e)),
        kv "svMC" (b2n (moveCtorNoexcept z e)), kv "svMA" (b2n (moveAssignNoexcept z e)),
        kv "svSW" (b2n (swapNoexcept z e)),
        kv "fcvMC" (b2n (moveCtorNoexcept z e)), kv "fcvMA" (b2n (moveAssignNoexcept z e)),
        kv "fcvSW" (b2n (swapNoexcept z e))]
    | _ => "error: bad C line"
  | _ => "error: unknown line"

end AmcVerif.Layout
