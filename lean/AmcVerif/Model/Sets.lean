import AmcVerif.Model.FlatSetCore
/-! Executable models of `amc::FlatSet` and `amc::SmallSet` over lists and a Bool-valued comparator (the comparator
*object* stored in the set). Lookups follow libstdc++'s `lower_bound` / `upper_bound` halving loops step by step and
count comparator calls; the bulk paths are modelled at the level of their specification (stable sort + stable merge +
keep-first unique = inserting the new elements one by one in input order). Hand-written; tied to the code by the
correspondence check (harness/set_harness.cpp). -/
namespace AmcVerif.Sets
open AmcVerif.FS

variable {α : Type}

/-- `std::lower_bound(first, first+len, v, comp)` (libstdc++): returns (index, comparator calls) -/
def lowerBound (lt : α → α → Bool) (l : List α) (v : α) : (first len : Nat) → Nat × Nat
  | first, 0 => (first, 0)
  | first, len+1 =>
    let half := (len+1) / 2
    let mid := first + half
    match l[mid]? with
    | some x =>
      if lt x v then
        let r := lowerBound lt l v (mid + 1) (len + 1 - half - 1)
        (r.1, r.2 + 1)
      else
        let r := lowerBound lt l v first half
        (r.1, r.2 + 1)
    | none => (first, 0)
termination_by first len => len
decreasing_by all_goals omega

/-- `std::upper_bound` (libstdc++) -/
def upperBound (lt : α → α → Bool) (l : List α) (v : α) : (first len : Nat) → Nat × Nat
  | first, 0 => (first, 0)
  | first, len+1 =>
    let half := (len+1) / 2
    let mid := first + half
    match l[mid]? with
    | some x =>
      if lt v x then
        let r := upperBound lt l v first half
        (r.1, r.2 + 1)
      else
        let r := upperBound lt l v (mid + 1) (len + 1 - half - 1)
        (r.1, r.2 + 1)
    | none => (first, 0)
termination_by first len => len
decreasing_by all_goals omega

/-- `std::lower_bound(first, first+len, k, comp)` (libstdc++) with a key `k` of ANOTHER type than the elements (a transparent
    comparator): the loop only ever evaluates `comp(*mid, k)`, here the predicate `p x = comp(x, k)`. Same loop as
    `lowerBound` (`lowerBound lt l v = lowerBoundBy (fun x => lt x v) l`); returns (index, comparator calls): on a
    range partitioned by `p`, the first index whose element does not satisfy `p`. -/
def lowerBoundBy (p : α → Bool) (l : List α) : (first len : Nat) → Nat × Nat
  | first, 0 => (first, 0)
  | first, len+1 =>
    let half := (len+1) / 2
    let mid := first + half
    match l[mid]? with
    | some x =>
      if p x then
        let r := lowerBoundBy p l (mid + 1) (len + 1 - half - 1)
        (r.1, r.2 + 1)
      else
        let r := lowerBoundBy p l first half
        (r.1, r.2 + 1)
    | none => (first, 0)
termination_by first len => len
decreasing_by all_goals omega

/-- `std::upper_bound(first, first+len, k, comp)` (libstdc++) with a key of another type: the loop only ever evaluates
    `comp(k, *mid)`, here the predicate `q x = comp(k, x)`. Same loop as `upperBound`
    (`upperBound lt l v = upperBoundBy (fun x => lt v x) l`); on a range partitioned by `!q`, the first index whose
    element satisfies `q`. -/
def upperBoundBy (q : α → Bool) (l : List α) : (first len : Nat) → Nat × Nat
  | first, 0 => (first, 0)
  | first, len+1 =>
    let half := (len+1) / 2
    let mid := first + half
    match l[mid]? with
    | some x =>
      if q x then
        let r := upperBoundBy q l first half
        (r.1, r.2 + 1)
      else
        let r := upperBoundBy q l (mid + 1) (len + 1 - half - 1)
        (r.1, r.2 + 1)
    | none => (first, 0)
termination_by first len => len
decreasing_by all_goals omega

/-- `FlatSet::insert_val` with the comparator-call count: (list, index of the element equivalent to v, inserted?, calls) -/
def insertValC (lt : α → α → Bool) (l : List α) (v : α) : List α × Nat × Bool × Nat :=
  let (i, c) := lowerBound lt l v 0 l.length
  match l[i]? with
  | some x => if lt v x then (l.insertIdx i v, i, true, c + 1) else (l, i, false, c + 1)
  | none => (l.insertIdx i v, i, true, c)

/-- `FlatSet::find`: (index or none, calls) -/
def findC (lt : α → α → Bool) (l : List α) (k : α) : Option Nat × Nat :=
  let (i, c) := lowerBound lt l k 0 l.length
  match l[i]? with
  | some x => if lt k x then (none, c + 1) else (some i, c + 1)
  | none => (none, c)

/-- `FlatSet::insert_hint`, exit by exit, with the comparator-call count -/
def insertHintC (lt : α → α → Bool) (l : List α) (h : Nat) (v : α) : List α × Nat × Nat :=
  let n := l.length
  -- hint == e || !comp(*hint, v)
  let (hintGeV, c1) : Bool × Nat := match l[h]? with | some x => (!lt x v, 1) | none => (true, 0)
  if hintGeV then
    -- hint == b || !comp(v, *prevIt)
    let (prevLeV, c2) : Bool × Nat :=
      if h = 0 then (true, 0) else match l[h-1]? with | some p => (!lt v p, 1) | none => (true, 0)
    if prevLeV then
      -- hint != e && !comp(v, *hint)
      let (eqHint, c3) : Bool × Nat := match l[h]? with | some x => (!lt v x, 1) | none => (false, 0)
      if eqHint then (l, h, c1 + c2 + c3)
      else
        -- hint != b && !comp(*prevIt, v)
        let (eqPrev, c4) : Bool × Nat :=
          if h = 0 then (false, 0) else match l[h-1]? with | some p => (!lt p v, 1) | none => (false, 0)
        if eqPrev then (l, h - 1, c1 + c2 + c3 + c4)
        else (l.insertIdx h v, h, c1 + c2 + c3 + c4)
    else
      -- lower_bound(b, prevIt, v)
      let (i, c) := lowerBound lt l v 0 (h - 1)
      if i = h - 1 then (l.insertIdx i v, i, c1 + c2 + c)
      else match l[i]? with
        | some x => if lt v x then (l.insertIdx i v, i, c1 + c2 + c + 1) else (l, i, c1 + c2 + c + 1)
        | none => (l.insertIdx i v, i, c1 + c2 + c)
  else
    let nx := h + 1
    match l[nx]? with
    | none => (l.insertIdx nx v, nx, c1)
    | some y =>
      if !lt y v then
        if !lt v y then (l, nx, c1 + 2) else (l.insertIdx nx v, nx, c1 + 2)
      else
        let r := insertValC lt l v
        (r.1, r.2.1, c1 + 1 + r.2.2.2)
  where n := l.length

/-- inserting the elements of `vs` one by one in order = the bulk paths (append, stable sort, stable merge, unique) -/
def insertAll (lt : α → α → Bool) (l : List α) (vs : List α) : List α :=
  vs.foldl (fun acc v => (insertVal lt acc v).1) l

def eraseKey (lt : α → α → Bool) (l : List α) (k : α) : List α × Nat × Nat :=
  match findC lt l k with
  | (some i, c) => (l.eraseIdx i, 1, c)
  | (none, c) => (l, 0, c)

/-- `FlatSet::merge` (same or different comparator on the source): elements of `o` without an equivalent in `l` move -/
def mergeFrom (lt : α → α → Bool) (l o : List α) : List α × List α :=
  o.foldl (fun (acc : List α × List α) v =>
    let r := insertVal lt acc.1 v
    if r.2.2 then (r.1, acc.2) else (acc.1, acc.2 ++ [v])) (l, [])

/- ---------------------------------------------------------------------------------------------------------
   SmallSet
   --------------------------------------------------------------------------------------------------------- -/

structure SSet (α : Type) where
  vec : List α      -- inline elements, insertion order
  set : List α      -- backing set, comparator order
deriving Repr

def SSet.isSmall (s : SSet α) : Bool := s.set.isEmpty
def SSet.elems (s : SSet α) : List α := if s.isSmall then s.vec else s.set
def SSet.size (s : SSet α) : Nat := s.elems.length

/-- `find_if(vec, FindFunctor)`: index of the first equivalent element, with comparator calls
    (`!comp(k, o) && !comp(o, k)`: one call when the first is true, two otherwise) -/
def findSmall (lt : α → α → Bool) : List α → α → Nat → Option Nat × Nat
  | [], _, _ => (none, 0)
  | o :: rest, k, i =>
    if lt k o then
      let r := findSmall lt rest k (i + 1)
      (r.1, r.2 + 1)
    else if lt o k then
      let r := findSmall lt rest k (i + 1)
      (r.1, r.2 + 2)
    else (some i, 2)

/-- `find_if(vec, FindFunctor<K>)` with a key of ANOTHER type than the elements (transparent comparator; `ltEK` = comp(element, key),
    `ltKE` = comp(key, element)): index of the first element equivalent to the key, with comparator calls
    (`!comp(k, o) && !comp(o, k)`: one call when the first is true, two otherwise) -/
def findSmallHet {κ : Type} (ltEK : α → κ → Bool) (ltKE : κ → α → Bool) : List α → κ → Nat → Option Nat × Nat
  | [], _, _ => (none, 0)
  | o :: rest, k, i =>
    if ltKE k o then
      let r := findSmallHet ltEK ltKE rest k (i + 1)
      (r.1, r.2 + 1)
    else if ltEK o k then
      let r := findSmallHet ltEK ltKE rest k (i + 1)
      (r.1, r.2 + 2)
    else (some i, 2)

/-- `count_if(vec, FindFunctor<K>)` with a key of another type: (number of elements equivalent to the key, comparator calls) -/
def countSmallHet {κ : Type} (ltEK : α → κ → Bool) (ltKE : κ → α → Bool) : List α → κ → Nat × Nat
  | [], _ => (0, 0)
  | o :: rest, k =>
    let r := countSmallHet ltEK ltKE rest k
    if ltKE k o then (r.1, r.2 + 1)
    else if ltEK o k then (r.1, r.2 + 2)
    else (r.1 + 1, r.2 + 2)

/-- `SetType::find(const K &)` of the backing set (a template parameter) with a key of another type, at the level of its
    specification: the position of the first element equivalent to the key, `end()` when there is none (what `std::set` and
    `amc::FlatSet` do: lower bound, then one comparison) -/
def findHetIdx {κ : Type} (ltEK : α → κ → Bool) (ltKE : κ → α → Bool) (l : List α) (k : κ) : Nat :=
  l.findIdx (fun x => !ltEK x k && !ltKE k x)

/-- `SetType::count(const K &)` of the backing set with a key of another type: the number of elements equivalent to the key -/
def countHet {κ : Type} (ltEK : α → κ → Bool) (ltKE : κ → α → Bool) (l : List α) (k : κ) : Nat :=
  (l.filter (fun x => !ltEK x k && !ltKE k x)).length

/-- `SmallSet::grow`: every inline element goes into the backing set, the inline vector is cleared -/
def SSet.grow (lt : α → α → Bool) (s : SSet α) : SSet α := ⟨[], insertAll lt s.set s.vec⟩

/-- `SmallSet::insert(v)`: (set, value of the designated element's slot index in `elems`, inserted?, calls or none) -/
def SSet.insert (lt : α → α → Bool) (N : Nat) (s : SSet α) (v : α) : SSet α × Nat × Bool × Option Nat :=
  if s.isSmall then
    match findSmall lt s.vec v 0 with
    | (some i, c) => (s, i, false, some c)
    | (none, c) =>
      if s.vec.length = N then
        let g := s.grow lt
        let r := insertVal lt g.set v
        (⟨[], r.1⟩, r.2.1, r.2.2, none)
      else (⟨s.vec ++ [v], []⟩, s.vec.length, true, some c)
  else
    let r := insertVal lt s.set v
    (⟨[], r.1⟩, r.2.1, r.2.2, none)

def SSet.find (lt : α → α → Bool) (s : SSet α) (k : α) : Option Nat × Option Nat :=
  if s.isSmall then
    let r := findSmall lt s.vec k 0
    (r.1, some r.2)
  else ((findC lt s.set k).1, none)

def SSet.eraseKey (lt : α → α → Bool) (s : SSet α) (k : α) : SSet α × Nat :=
  if s.isSmall then
    match (findSmall lt s.vec k 0).1 with
    | some i => (⟨s.vec.eraseIdx i, []⟩, 1)
    | none => (s, 0)
  else
    let r := Sets.eraseKey lt s.set k
    (⟨[], r.1⟩, r.2.1)

def SSet.eraseIdx (s : SSet α) (i : Nat) : SSet α :=
  if s.isSmall then ⟨s.vec.eraseIdx i, []⟩ else ⟨[], s.set.eraseIdx i⟩

def SSet.insertRange (lt : α → α → Bool) (N : Nat) (s : SSet α) (vs : List α) : SSet α :=
  vs.foldl (fun acc v => (acc.insert lt N v).1) s

/-- `SmallSet::merge(o)` -/
def SSet.merge (lt : α → α → Bool) (N : Nat) (s o : SSet α) : SSet α × SSet α :=
  if !o.isSmall then
    let g := if s.isSmall then s.grow lt else s
    let r := mergeFrom lt g.set o.set
    (⟨[], r.1⟩, ⟨[], r.2⟩)
  else
    let r := o.vec.foldl (fun (acc : SSet α × List α) v =>
      let ins := acc.1.insert lt N v
      if ins.2.2.1 then (ins.1, acc.2) else (acc.1, acc.2 ++ [v])) (s, [])
    (r.1, ⟨r.2, []⟩)

end AmcVerif.Sets
