import AmcVerif.Prim.Base
/-! The *law interface* between the generated base-class members and everything proved above them.

`SRep N kMax t` is the representation invariant of the size/capacity words of a `SmallVectorBase` with inline
capacity `N` (`N < kMax`): inline and partially filled (`_capa` = size, `_size` = N), inline and exactly full
(`_capa` = N, `_size` = kMax), or heap state (`_size ≤ _capa`).  `SmallLaws ops N` states how each generated
member acts on the *decoded view* (small?, size, capacity) and which element / allocator effects it emits.  The
generated definitions are shown to satisfy these laws in `Bridge/` (one instance per size type, regenerated and
re-checked on every run); everything above is proved from the laws only, so a harmless rewrite of the members keeps
the theorems, and a rewrite that breaks a law breaks exactly the `Bridge` lemma of the member concerned. -/
namespace AmcVerif

/-- representation invariant of SmallVectorBase words -/
def SRep (N kMax : Nat) (t : VB) : Prop :=
  (t.capa < N ∧ t.size = N) ∨ (t.capa = N ∧ t.size = kMax) ∨ (t.size ≤ t.capa ∧ t.capa ≤ kMax)

/-- growth target of `SafeNextCapacity`: max(⌈1.5·old⌉, n) limited to the size_type maximum -/
def nextCapOf (kMax old n : Nat) : Nat := Nat.min (Nat.max ((3 * old + 1) / 2) n) kMax

def growEffs (small : Bool) (t : VB) (sz cap r fresh : Nat) : List Eff :=
  if small then
    [Eff.alloc r (PtrV.blk (fresh + 0)), Eff.relocN (PtrV.inl 0) sz (PtrV.blk (fresh + 0)), Eff.setDyn 0]
  else [Eff.realloc t.dyn cap r sz (PtrV.blk (fresh + 0)), Eff.setDyn 0]

structure SmallLaws (ops : BaseOps) (N : Nat) : Prop where
  kmax : N < ops.kMax
  npos : 0 < N
  bounds : ∀ t, SRep N ops.kMax t →
    ops.size t ≤ ops.capacity t ∧ ops.capacity t ≤ ops.kMax ∧ (ops.isSmall t = true → ops.capacity t = N)
  begin_small : ∀ t, ops.begin t = if ops.isSmall t then PtrV.inl 0 else t.dyn
  ctor : SRep N ops.kMax (ops.ctor N) ∧ ops.size (ops.ctor N) = 0 ∧ ops.capacity (ops.ctor N) = N
    ∧ ops.isSmall (ops.ctor N) = true
  incr : ∀ t, SRep N ops.kMax t → ops.size t < ops.capacity t →
    SRep N ops.kMax (ops.incrSize t) ∧ ops.size (ops.incrSize t) = ops.size t + 1
      ∧ ops.capacity (ops.incrSize t) = ops.capacity t ∧ ops.isSmall (ops.incrSize t) = ops.isSmall t
      ∧ (ops.incrSize t).dyn = t.dyn
  decr : ∀ t, SRep N ops.kMax t → 0 < ops.size t →
    SRep N ops.kMax (ops.decrSize t) ∧ ops.size (ops.decrSize t) + 1 = ops.size t
      ∧ ops.capacity (ops.decrSize t) = ops.capacity t ∧ ops.isSmall (ops.decrSize t) = ops.isSmall t
      ∧ (ops.decrSize t).dyn = t.dyn
  setSize : ∀ t, SRep N ops.kMax t → ∀ s, s ≤ ops.capacity t →
    SRep N ops.kMax (ops.setSize t s) ∧ ops.size (ops.setSize t s) = s
      ∧ ops.capacity (ops.setSize t s) = ops.capacity t ∧ ops.isSmall (ops.setSize t s) = ops.isSmall t
      ∧ (ops.setSize t s).dyn = t.dyn
  growErr : ∀ t minSize exact fresh e, ops.safeNext (ops.capacity t) minSize exact = .error e →
    ops.grow t minSize exact fresh = .error e
  growOk : ∀ t, SRep N ops.kMax t → ∀ minSize exact fresh r, ops.safeNext (ops.capacity t) minSize exact = .ok r →
    ops.grow t minSize exact fresh = .ok (⟨r, ops.size t, PtrV.blk (fresh + 0)⟩,
      growEffs (ops.isSmall t) t (ops.size t) (ops.capacity t) r fresh)
  grownRep : ∀ sz r d, sz ≤ r → r ≤ ops.kMax →
    SRep N ops.kMax ⟨r, sz, d⟩ ∧ ops.size ⟨r, sz, d⟩ = sz ∧ ops.capacity ⟨r, sz, d⟩ = r ∧ ops.isSmall ⟨r, sz, d⟩ = false
  safeExact : ∀ old n, n ≤ ops.kMax → ops.safeNext old n true = .ok n
  safeGrow : ∀ old n, n ≤ ops.kMax → old < 2 ^ 62 → ops.safeNext old n false = .ok (nextCapOf ops.kMax old n)
  safeOverflow : ∀ old n, ops.kMax < n → ops.safeNext old n false = .error .overflow
  moveAssignRep : ∀ t o, SRep N ops.kMax t → SRep N ops.kMax o →
    SRep N ops.kMax (ops.moveAssign t o N).1 ∧ SRep N ops.kMax (ops.moveAssign t o N).2.1
      ∧ ops.size (ops.moveAssign t o N).1 = ops.size o ∧ ops.size (ops.moveAssign t o N).2.1 = 0
      ∧ ops.isSmall (ops.moveAssign t o N).2.1 = true ∧ ops.capacity (ops.moveAssign t o N).2.1 = N
  moveAssignSteal : ∀ t o, SRep N ops.kMax t → SRep N ops.kMax o → ops.isSmall o = false →
    ops.isSmall (ops.moveAssign t o N).1 = false ∧ ops.capacity (ops.moveAssign t o N).1 = ops.capacity o
      ∧ (ops.moveAssign t o N).1.dyn = o.dyn
  moveAssignInline : ∀ t o, SRep N ops.kMax t → SRep N ops.kMax o → ops.isSmall o = true → ops.isSmall t = true →
    ops.isSmall (ops.moveAssign t o N).1 = true ∧ ops.capacity (ops.moveAssign t o N).1 = N
      ∧ (ops.moveAssign t o N).2.2 = [Eff.moveN (PtrV.inl 1) (ops.size o) (PtrV.inl 0) (ops.size t)]
  moveAssignIntoHeap : ∀ t o, SRep N ops.kMax t → SRep N ops.kMax o → ops.isSmall o = true → ops.isSmall t = false →
    (ops.size o ≤ ops.capacity t →
        ops.isSmall (ops.moveAssign t o N).1 = false ∧ ops.capacity (ops.moveAssign t o N).1 = ops.capacity t
          ∧ (ops.moveAssign t o N).1.dyn = t.dyn)
    ∧ (ops.capacity t < ops.size o →
        ops.isSmall (ops.moveAssign t o N).1 = true ∧ ops.capacity (ops.moveAssign t o N).1 = N)
  moveConstruct : ∀ t o, SRep N ops.kMax o →
    SRep N ops.kMax (ops.moveConstruct t o N).1 ∧ SRep N ops.kMax (ops.moveConstruct t o N).2.1
      ∧ ops.size (ops.moveConstruct t o N).1 = ops.size o ∧ ops.size (ops.moveConstruct t o N).2.1 = 0
      ∧ ops.isSmall (ops.moveConstruct t o N).2.1 = true ∧ ops.capacity (ops.moveConstruct t o N).2.1 = N
      ∧ ops.isSmall (ops.moveConstruct t o N).1 = ops.isSmall o
      ∧ ops.capacity (ops.moveConstruct t o N).1 = ops.capacity o
      ∧ (ops.isSmall o = false → (ops.moveConstruct t o N).1.dyn = o.dyn)
  swapImpl : ∀ t o, SRep N ops.kMax t → SRep N ops.kMax o →
    SRep N ops.kMax (ops.swapImpl t o).1 ∧ SRep N ops.kMax (ops.swapImpl t o).2.1
      ∧ ops.size (ops.swapImpl t o).1 = ops.size o ∧ ops.size (ops.swapImpl t o).2.1 = ops.size t
      ∧ ops.capacity (ops.swapImpl t o).1 = ops.capacity o ∧ ops.capacity (ops.swapImpl t o).2.1 = ops.capacity t
      ∧ ops.isSmall (ops.swapImpl t o).1 = ops.isSmall o ∧ ops.isSmall (ops.swapImpl t o).2.1 = ops.isSmall t
      ∧ (ops.isSmall o = false → (ops.swapImpl t o).1.dyn = o.dyn)
      ∧ (ops.isSmall t = false → (ops.swapImpl t o).2.1.dyn = t.dyn)
  shrinkImpl : ∀ t, SRep N ops.kMax t → ∀ fresh,
    SRep N ops.kMax (ops.shrinkImpl t N fresh).1 ∧ ops.size (ops.shrinkImpl t N fresh).1 = ops.size t
      ∧ (ops.isSmall t = true → (ops.shrinkImpl t N fresh).1.capa = t.capa ∧ (ops.shrinkImpl t N fresh).1.size = t.size
            ∧ (ops.shrinkImpl t N fresh).1.dyn = t.dyn ∧ (ops.shrinkImpl t N fresh).2 = [])
      ∧ (ops.isSmall t = false → ops.size t ≤ N →
            ops.isSmall (ops.shrinkImpl t N fresh).1 = true ∧ ops.capacity (ops.shrinkImpl t N fresh).1 = N)
      ∧ (ops.isSmall t = false → N < ops.size t →
            ops.isSmall (ops.shrinkImpl t N fresh).1 = false ∧ ops.capacity (ops.shrinkImpl t N fresh).1 = ops.size t)
  dtor : ∀ t, (ops.dtor t).2 = if ops.isSmall t then [] else [Eff.dealloc t.dyn (ops.capacity t)]

end AmcVerif
