import AmcVerif.Prim.Base
/-! The *law interface* between the generated base-class members and everything proved above them.

`SRep N kMax t` is the representation invariant of the size/capacity words of a `SmallVectorBase` with inline
capacity `N` (`N < kMax`): inline and partially filled (`_capa` = size, `_size` = N), inline and exactly full
(`_capa` = N, `_size` = kMax), or heap state (`_size ≤ _capa`).  `SmallLaws ops N` states how each generated
member acts on the *decoded view* (small?, size, capacity).  The generated definitions are shown to satisfy these
laws in `Bridge/` (one instance per size type, regenerated and re-checked on every run). -/
namespace AmcVerif

structure View where
  small : Bool
  size : Nat
  cap : Nat
deriving DecidableEq, Repr

/-- representation invariant of SmallVectorBase words -/
def SRep (N kMax : Nat) (t : VB) : Prop :=
  (t.capa < N ∧ t.size = N) ∨ (t.capa = N ∧ t.size = kMax) ∨ (t.size ≤ t.capa ∧ t.capa ≤ kMax)

/-- the words decode to: small?, size, capacity -/
def sview (ops : BaseOps) (t : VB) : View :=
  ⟨match ops.begin t with | .inl _ => true | _ => false, ops.size t, ops.capacity t⟩

/-- heap-state predicate on raw words -/
def SHeap (t : VB) : Prop := t.size ≤ t.capa

end AmcVerif
