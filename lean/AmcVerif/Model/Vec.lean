import AmcVerif.Prim.Helpers
/-! Executable model of the public vector operations (`VectorImpl`, `DynamicVector`, `StaticVector`, `Vector`) over
the *generated* base-class members (`BaseOps`) and the slot-level helpers. Hand-written, step-faithful to
`vectorcommon.hpp`; tied to the code by the correspondence check. -/
namespace AmcVerif
variable {α : Type}

inductive Flavour where
  | fixed   -- FixedCapacityVector (StaticVector over StaticVectorBase)
  | std     -- amc::vector (DynamicVector over StdVectorBase)
  | small   -- SmallVector (DynamicVector over SmallVectorBase)
deriving DecidableEq, Repr, Inhabited

structure Cfg where
  flavour : Flavour
  n : Nat                 -- inline capacity N
  ops : BaseOps
  checked : Bool := true  -- ExceptionGrowingPolicy (true) or UncheckedGrowingPolicy
  allocId : Nat := 0      -- identifies the allocator *type* (`std::is_same<OAlloc, Alloc>` in canSwapDynStorage)

def Cfg.dynamic (cfg : Cfg) : Bool := cfg.flavour != .fixed

def getW (c : Nat) : M α VB := do
  match (← get).ws[c]? with
  | some w => pure w
  | none => fault .oob

def setW (c : Nat) (w : VB) : M α Unit := modify fun m => { m with ws := m.ws.set c w }

def vsize (cfg : Cfg) (c : Nat) : M α Nat := do return cfg.ops.size (← getW c)
def vcap (cfg : Cfg) (c : Nat) : M α Nat := do return cfg.ops.capacity (← getW c)
def vbegin (cfg : Cfg) (c : Nat) : M α Addr := do return resolve c c (cfg.ops.begin (← getW c))
def vend (cfg : Cfg) (c : Nat) : M α Addr := do return (← vbegin cfg c).add (← vsize cfg c)

def incrSize (cfg : Cfg) (c : Nat) : M α Unit := do setW c (cfg.ops.incrSize (← getW c))
def decrSize (cfg : Cfg) (c : Nat) : M α Unit := do setW c (cfg.ops.decrSize (← getW c))
def setSize (cfg : Cfg) (c : Nat) (s : Nat) : M α Unit := do setW c (cfg.ops.setSize (← getW c) (s % (cfg.ops.kMax + 1)))

def takeFresh : M α Nat := do
  let m ← get
  set { m with nextId := m.nextId + 1 }
  pure m.nextId

/-- `this->grow(minSize, exact)` -/
def grow (cfg : Cfg) (c : Nat) (minSize : Nat) (exact : Bool) : M α Unit := do
  let w ← getW c
  let fresh ← takeFresh
  match cfg.ops.grow w minSize exact fresh with
  | .error e => raise e
  | .ok (w', effs) =>
    interpAll c c effs
    setW c w'

/-- `growOrDestroy(newElem)`: the temporary holding the new element is destroyed if growing fails -/
def growOrDestroy (cfg : Cfg) (c : Nat) (needed : Nat) : M α Unit :=
  tryCatch (grow cfg c needed false) fun s => do
    match s with
    | .exc _ => destroyAt ⟨.tmp, 0⟩
    | .fault _ => pure ()
    throw s

/-- `adjustCapacity(neededCapacity)` -/
def adjustCapacity (cfg : Cfg) (c : Nat) (needed : Nat) : M α Unit := do
  if cfg.dynamic then
    if (← vcap cfg c) < needed then grow cfg c needed false
  else
    if cfg.checked then
      match cfg.ops.check needed (← vcap cfg c) with
      | .error e => raise e
      | .ok _ => pure ()
    else
      if (← vcap cfg c) < needed then fault .precond

/-- `adjustCapacity(needed, v)`: a reference into the own buffer is re-based after growth -/
def adjustCapacityRef (cfg : Cfg) (c : Nat) (needed : Nat) (v : Ref α) : M α (Ref α) := do
  if cfg.dynamic then
    if (← vcap cfg c) < needed then
      let b ← vbegin cfg c
      let sz ← vsize cfg c
      grow cfg c needed false
      match v with
      | .at a => if a.r == b.r && b.i ≤ a.i && a.i < b.i + sz then
                   let b' ← vbegin cfg c
                   pure (.at ⟨b'.r, b'.i + (a.i - b.i)⟩)
                 else pure v
      | .lit _ => pure v
    else pure v
  else
    adjustCapacity cfg c needed
    pure v

/-- `adjustCapacity(needed, pos)` / the `&position` variants: positions are indices, re-based by construction -/
def posAddr (cfg : Cfg) (c : Nat) (p : Nat) : M α Addr := do return (← vbegin cfg c).add p

/-- `ExceptionGrowingPolicy::Check(size + 1U, capacity)` of the static emplace paths -/
def staticCheck (cfg : Cfg) (c : Nat) (needed : Nat) : M α Unit := adjustCapacity cfg c needed

def tmpAddr : Addr := ⟨.tmp, 0⟩

/-- `emplace_n(pos, n, args...)`: the new element is built in a temporary before the shift -/
def emplaceN (pos : Addr) (n : Nat) (arg : Arg α) : M α Unit := do
  if n = 0 then
    constructArg pos arg
  else
    constructArg tmpAddr arg
    shiftRight1 pos n
    relocateAfterShift tmpAddr pos

/-- `address_after_shift(v, pos, n, count)` -/
def addressAfterShift (v : Ref α) (pos : Addr) (n count : Nat) : Ref α :=
  match v with
  | .at a => if a.r == pos.r && pos.i ≤ a.i && a.i < pos.i + n then .at ⟨a.r, a.i + count⟩ else v
  | .lit _ => v

/- ------------------------------------------------------------------------------------------------
   public operations
   ------------------------------------------------------------------------------------------------ -/

def pushBackCopy (cfg : Cfg) (c : Nat) (v : Ref α) : M α Unit := do
  let newV ← adjustCapacityRef cfg c ((← vsize cfg c) + 1) v
  constructCopyRef (← vend cfg c) newV
  incrSize cfg c

def pushBackMove (cfg : Cfg) (c : Nat) (v : α) : M α Unit := do
  adjustCapacity cfg c ((← vsize cfg c) + 1)
  constructFromRvalue (← vend cfg c) v
  incrSize cfg c

def emplaceBack (cfg : Cfg) (c : Nat) (arg : Arg α) : M α Unit := do
  if cfg.dynamic then
    let sz ← vsize cfg c
    if sz == (← vcap cfg c) then
      constructArg tmpAddr arg
      growOrDestroy cfg c (sz + 1)
      relocateAt tmpAddr (← vend cfg c)
    else
      constructArg (← vend cfg c) arg
  else
    staticCheck cfg c ((← vsize cfg c) + 1)
    constructArg (← vend cfg c) arg
  incrSize cfg c

def emplace (cfg : Cfg) (c : Nat) (p : Nat) (arg : Arg α) : M α Nat := do
  let sz ← vsize cfg c
  let nShift := sz - p
  if cfg.dynamic then
    if sz == (← vcap cfg c) then
      constructArg tmpAddr arg
      growOrDestroy cfg c (sz + 1)
      let pos ← posAddr cfg c p
      if nShift = 0 then
        relocateAt tmpAddr pos
      else
        shiftRight1 pos nShift
        relocateAfterShift tmpAddr pos
    else
      emplaceN (← posAddr cfg c p) nShift arg
  else
    staticCheck cfg c (sz + 1)
    emplaceN (← posAddr cfg c p) nShift arg
  incrSize cfg c
  pure p

def insertOne (cfg : Cfg) (c : Nat) (p : Nat) (v : Arg α) : M α Nat := do
  let sz ← vsize cfg c
  let v' ← match v with
    | .copy r => do pure (Arg.copy (← adjustCapacityRef cfg c (sz + 1) r))
    | .move x => do adjustCapacity cfg c (sz + 1); pure (Arg.move x)
  let pos ← posAddr cfg c p
  let nShift := (← vsize cfg c) - p
  let v'' := match v' with
    | .copy r => Arg.copy (addressAfterShift r pos nShift 1)
    | .move x => Arg.move x
  insertN pos nShift v''
  incrSize cfg c
  pure p

def insertCount (cfg : Cfg) (c : Nat) (p count : Nat) (v : Ref α) : M α Nat := do
  if count > 0 then
    let sz ← vsize cfg c
    let newV ← adjustCapacityRef cfg c (sz + count) v
    let pos ← posAddr cfg c p
    let nShift := sz - p
    if nShift = 0 then
      uninitFillRef pos count newV
    else
      shiftRightN pos nShift count
      fillAfterShift pos nShift count (addressAfterShift newV pos nShift count)
    setSize cfg c (sz + count)
  pure p

def insertRange (cfg : Cfg) (c : Nat) (p : Nat) (vals : List α) : M α Nat := do
  let count := vals.length
  if count > 0 then
    let sz ← vsize cfg c
    adjustCapacity cfg c (sz + count)
    let pos ← posAddr cfg c p
    let nShift := sz - p
    if nShift = 0 then
      uninitCopyN pos vals
    else
      shiftRightN pos nShift count
      copyAfterShift vals nShift pos
    setSize cfg c (sz + count)
  pure p

def eraseOne (cfg : Cfg) (c : Nat) (p : Nat) : M α Nat := do
  let sz ← vsize cfg c
  eraseAt (← posAddr cfg c p) (sz - p - 1)
  decrSize cfg c
  pure p

def eraseRange (cfg : Cfg) (c : Nat) (p q : Nat) : M α Nat := do
  let sz ← vsize cfg c
  let n := q - p
  if n ≠ 0 then
    eraseN (← posAddr cfg c p) n (sz - q)
    setSize cfg c (sz - n)
  pure p

def popBack (cfg : Cfg) (c : Nat) : M α Unit := do
  let e ← vend cfg c
  destroyAt ⟨e.r, e.i - 1⟩
  decrSize cfg c

/-- `pop_back_val()`: the returned temporary is move-constructed, then destroyed by the caller -/
def popBackVal (cfg : Cfg) (c : Nat) : M α α := do
  let e ← vend cfg c
  let last : Addr := ⟨e.r, e.i - 1⟩
  let v ← readLive last
  wr last (← movedFrom v)
  bumpEv fun ev => { ev with mc := ev.mc + 1 }
  popBack cfg c
  pure v

def clear (cfg : Cfg) (c : Nat) : M α Unit := do
  destroyN (← vbegin cfg c) (← vsize cfg c)
  setSize cfg c 0

def assignFill (cfg : Cfg) (c : Nat) (count : Nat) (v : Ref α) : M α Unit := do
  let sz ← vsize cfg c
  if sz < count then
    let newV ← adjustCapacityRef cfg c count v
    fillHelper (← vbegin cfg c) sz count newV
  else
    let b ← vbegin cfg c
    fillRef b count v
    destroyN (b.add count) (sz - count)
  setSize cfg c count

def assignRange (cfg : Cfg) (c : Nat) (vals : List α) : M α Unit := do
  let sz ← vsize cfg c
  let count := vals.length
  if sz < count then
    adjustCapacity cfg c count
    assignN vals (← vbegin cfg c) sz
  else
    let b ← vbegin cfg c
    copyN b vals
    destroyN (b.add count) (sz - count)
  setSize cfg c count

def resize [Inhabited α] (cfg : Cfg) (c : Nat) (count : Nat) : M α Unit := do
  let sz ← vsize cfg c
  if sz < count then
    adjustCapacity cfg c count
    uninitValueN (← vend cfg c) (count - sz)
  else
    destroyN ((← vbegin cfg c).add count) (sz - count)
  setSize cfg c count

def resizeFill (cfg : Cfg) (c : Nat) (count : Nat) (v : Ref α) : M α Unit := do
  let sz ← vsize cfg c
  if sz < count then
    let newV ← adjustCapacityRef cfg c count v
    uninitFillRef (← vend cfg c) (count - sz) newV
  else
    destroyN ((← vbegin cfg c).add count) (sz - count)
  setSize cfg c count

def reserve (cfg : Cfg) (c : Nat) (n : Nat) : M α Unit := do
  if cfg.dynamic then
    if (← vcap cfg c) < n then grow cfg c n true
  else
    adjustCapacity cfg c n

def shrinkToFit (cfg : Cfg) (c : Nat) : M α Unit := do
  let w ← getW c
  let fresh ← takeFresh
  let (w', effs) := cfg.ops.shrinkImpl w cfg.n fresh
  interpAll c c effs
  setW c w'

def appendRange (cfg : Cfg) (c : Nat) (vals : List α) : M α Unit := do
  let sz ← vsize cfg c
  adjustCapacity cfg c (sz + vals.length)
  uninitCopyN (← vend cfg c) vals
  setSize cfg c (sz + vals.length)

def appendN [Inhabited α] (cfg : Cfg) (c : Nat) (count : Nat) : M α Unit := do
  let sz ← vsize cfg c
  adjustCapacity cfg c (sz + count)
  uninitValueN (← vend cfg c) count
  setSize cfg c (sz + count)

def appendFill (cfg : Cfg) (c : Nat) (count : Nat) (v : Ref α) : M α Unit := do
  let sz ← vsize cfg c
  let newV ← adjustCapacityRef cfg c (sz + count) v
  uninitFillRef (← vend cfg c) count newV
  setSize cfg c (sz + count)

/-- `append(first, last)` for single pass input iterators: one `emplace_back` per element -/
def appendInputLoop (cfg : Cfg) (c : Nat) : List α → M α Unit
  | [] => pure ()
  | v :: vs => do emplaceBack cfg c (.copy (.lit v)); appendInputLoop cfg c vs

/-- on an exception the elements appended so far are removed again -/
def appendInput (cfg : Cfg) (c : Nat) (vals : List α) : M α Unit := do
  let oldSize ← vsize cfg c
  tryCatch (appendInputLoop cfg c vals) fun s => do
    match s with
    | .exc _ =>
      destroyN ((← vbegin cfg c).add oldSize) ((← vsize cfg c) - oldSize)
      setSize cfg c oldSize
    | .fault _ => pure ()
    throw s

def assignInput (cfg : Cfg) (c : Nat) (vals : List α) : M α Unit := do
  clear cfg c
  appendInputLoop cfg c vals

/-- `insert(pos, first, last)` for single pass input iterators: append, then `std::rotate` into place
    (the rotation is modelled by its net effect on the values) -/
def insertInput (cfg : Cfg) (c : Nat) (p : Nat) (vals : List α) : M α Nat := do
  let oldSize ← vsize cfg c
  appendInput cfg c vals
  let b ← vbegin cfg c
  let all ← readLiveN b (← vsize cfg c)
  let rotated := all.take p ++ all.drop oldSize ++ (all.take oldSize).drop p
  let rec put (a : Addr) : List α → M α Unit
    | [] => pure ()
    | v :: vs => do wr a (.live v); put (a.add 1) vs
  put b rotated
  pure p

/-- the visible elements (fails on a dead or moved-from one) -/
def elems (cfg : Cfg) (c : Nat) : M α (List α) := do
  readLiveN (← vbegin cfg c) (← vsize cfg c)

/-- `~Vector()`: `VectorDestr` destroys the elements, the base destructor frees the heap buffer -/
def destruct (cfg : Cfg) (c : Nat) : M α Unit := do
  destroyN (← vbegin cfg c) (← vsize cfg c)
  let (w', effs) := cfg.ops.dtor (← getW c)
  interpAll c c effs
  setW c w'

/-- `Vector()`: a fresh object in pool slot `c` -/
def construct (cfg : Cfg) (c : Nat) : M α Unit := setW c (cfg.ops.ctor cfg.n)

def copyConstruct (cfg : Cfg) (c d : Nat) : M α Unit := do
  let vals ← elems cfg d
  construct cfg c
  appendRange cfg c vals

def copyAssign (cfg : Cfg) (c d : Nat) : M α Unit := do
  if c ≠ d then assignRange cfg c (← elems cfg d)

def moveConstruct (cfg : Cfg) (c d : Nat) : M α Unit := do
  construct cfg c
  let (wc, wd, effs) := cfg.ops.moveConstruct (← getW c) (← getW d) cfg.n
  interpAll c d effs
  setW c wc; setW d wd

def moveAssign (cfg : Cfg) (c d : Nat) : M α Unit := do
  if c ≠ d then
    let (wc, wd, effs) := cfg.ops.moveAssign (← getW c) (← getW d) cfg.n
    interpAll c d effs
    setW c wc; setW d wd

def swapSame (cfg : Cfg) (c d : Nat) : M α Unit := do
  if c ≠ d then
    let (wc, wd, effs) := cfg.ops.swapImpl (← getW c) (← getW d)
    interpAll c d effs
    setW c wc; setW d wd


/- ------------------------------------------------------------------------------------------------
   swap2 between two vectors of possibly different flavour / N / size_type / allocator
   (hand-written after `VectorImpl::swap2`, `adjustEachOtherCapacity`, `swap2_impl`, `canExchangeDynStorage`)
   ------------------------------------------------------------------------------------------------ -/

/-- `this->canSwapDynStorage(o)` -/
def canSwapDyn (ca cb : Cfg) (wa wb : VB) : Bool :=
  match ca.flavour, cb.flavour with
  | .fixed, _ => false
  | _, .fixed => false
  | .std, .std => ca.allocId == cb.allocId
  | .std, .small => ca.allocId == cb.allocId && !cb.ops.isSmall wb
  | .small, .std => ca.allocId == cb.allocId && !ca.ops.isSmall wa
  | .small, .small => ca.allocId == cb.allocId && !ca.ops.isSmall wa && !cb.ops.isSmall wb

/-- `this->canExchangeDynStorage(o)` -/
def canExchangeDyn (ca cb : Cfg) (wa wb : VB) : Bool :=
  canSwapDyn ca cb wa wb && decide (cb.ops.capacity wb ≤ ca.ops.kMax) && decide (ca.ops.capacity wa ≤ cb.ops.kMax)

def swap2 (ca cb : Cfg) (a b : Nat) : M α Unit := do
  let wa ← getW a
  let wb ← getW b
  -- adjustEachOtherCapacity
  if ca.dynamic then
    if !canExchangeDyn ca cb wa wb then
      adjustCapacity ca a (cb.ops.size wb)
      adjustCapacity cb b (ca.ops.size wa)
  else
    adjustCapacity ca a (cb.ops.size wb)
    adjustCapacity cb b (ca.ops.size wa)
  -- swap2_impl
  let wa ← getW a
  let wb ← getW b
  let sa := ca.ops.size wa
  let sb := cb.ops.size wb
  if ca.dynamic && cb.dynamic && canExchangeDyn ca cb wa wb then
    let capA := ca.ops.capacity wa
    let capB := cb.ops.capacity wb
    setW a ⟨capB, sb, wb.dyn⟩
    setW b ⟨capA, sa, wa.dyn⟩
  else
    swapDeep (← vbegin ca a) sa (← vbegin cb b) sb
    setSize ca a sb
    setSize cb b sa

/- ------------------------------------------------------------------------------------------------
   read-only accessors and comparisons (`at`, `operator[]`, `front`, `back`, `data`, `empty`, `max_size`, `operator==`, `<`, …).
   A returned reference is modelled by the VALUE of the element it designates, read when the member returns: reading a slot
   that holds no live element is a fault (the `assert`s of the source are not modelled, as everywhere in this file: what they
   guard against surfaces as a fault of the memory model). `eqT` / `ltT` are `operator==` / `operator<` of the element type.
   ------------------------------------------------------------------------------------------------ -/

/-- `std::equal(first1, last1, first2)` with `operator==` of the elements, on the values of the two ranges (the second one is
    read as long as the first) -/
def stdEqual (eqT : α → α → Bool) : List α → List α → Bool
  | [], _ => true
  | _ :: _, [] => false
  | x :: xs, y :: ys => eqT x y && stdEqual eqT xs ys

/-- `std::lexicographical_compare(first1, last1, first2, last2)` with `operator<` of the elements -/
def stdLexLt (ltT : α → α → Bool) : List α → List α → Bool
  | _, [] => false
  | [], _ :: _ => true
  | x :: xs, y :: ys => if ltT x y then true else if ltT y x then false else stdLexLt ltT xs ys

/-- `at(idx)`: throws `std::out_of_range` when `idx >= size()` -/
def atIdx (cfg : Cfg) (c : Nat) (i : Nat) : M α α := do
  if i ≥ (← vsize cfg c) then raise .outOfRange
  readLive ((← vbegin cfg c).add i)

/-- `operator[](idx)`: no check; `idx >= size()` reads a slot without a live element (fault) -/
def index (cfg : Cfg) (c : Nat) (i : Nat) : M α α := do
  readLive ((← vbegin cfg c).add i)

/-- `front()` -/
def front (cfg : Cfg) (c : Nat) : M α α := do
  readLive (← vbegin cfg c)

/-- `back()`: `*(end() - 1)` -/
def back (cfg : Cfg) (c : Nat) : M α α := do
  let e ← vend cfg c
  readLive ⟨e.r, e.i - 1⟩

/-- `data()` -/
def dataPtr (cfg : Cfg) (c : Nat) : M α Addr := vbegin cfg c

/-- `empty()` -/
def isEmpty (cfg : Cfg) (c : Nat) : M α Bool := do
  return decide ((← vsize cfg c) = 0)

/-- `max_size()`: `numeric_limits<size_type>::max()` (DynamicVector), `capacity()` (StaticVector) -/
def maxSize (cfg : Cfg) (c : Nat) : M α Nat :=
  if cfg.dynamic then pure cfg.ops.kMax else vcap cfg c

/-- `*this == o`: equal sizes and `std::equal` (the elements are only read when the sizes agree) -/
def vecEqual (eqT : α → α → Bool) (cfg : Cfg) (c d : Nat) : M α Bool := do
  if (← vsize cfg c) = (← vsize cfg d) then
    return stdEqual eqT (← elems cfg c) (← elems cfg d)
  else
    return false

/-- `*this < o`: `std::lexicographical_compare` -/
def vecLess (ltT : α → α → Bool) (cfg : Cfg) (c d : Nat) : M α Bool := do
  return stdLexLt ltT (← elems cfg c) (← elems cfg d)

/-- `*this != o` is `!(*this == o)` -/
def vecNotEqual (eqT : α → α → Bool) (cfg : Cfg) (c d : Nat) : M α Bool := do
  return !(← vecEqual eqT cfg c d)

/-- `*this <= o` is `!(o < *this)` -/
def vecLessEq (ltT : α → α → Bool) (cfg : Cfg) (c d : Nat) : M α Bool := do
  return !(← vecLess ltT cfg d c)

/-- `*this > o` is `o < *this` -/
def vecGreater (ltT : α → α → Bool) (cfg : Cfg) (c d : Nat) : M α Bool := vecLess ltT cfg d c

/-- `*this >= o` is `!(*this < o)` -/
def vecGreaterEq (ltT : α → α → Bool) (cfg : Cfg) (c d : Nat) : M α Bool := do
  return !(← vecLess ltT cfg c d)

end AmcVerif
