import AmcVerif.Model.WordLaws
/-! Word level of the vector model: the pure size/capacity/pointer transitions that the public operations of a
dynamic vector perform through the (generated) base-class members, together with the element / allocator effects
they emit. The executable slot-level model (`Model/Vec.lean`) calls exactly these functions for its words, so the
theorems proved here (from the word laws only) are statements about the word evolution of the model that is run
against the real containers. -/
namespace AmcVerif

/-- `DynamicVector::adjustCapacity(needed)`: grow only when the capacity is insufficient -/
def wAdjust (ops : BaseOps) (t : VB) (needed fresh : Nat) : Except Exc (VB × List Eff) :=
  if ops.capacity t < needed then ops.grow t needed false fresh else .ok (t, [])

/-- `DynamicVector::reserve(n)`: exact growth, only when larger -/
def wReserve (ops : BaseOps) (t : VB) (n fresh : Nat) : Except Exc (VB × List Eff) :=
  if ops.capacity t < n then ops.grow t n true fresh else .ok (t, [])

/-- word-level shapes of the public operations -/
inductive WOp where
  /-- `adjustCapacity(needed)` then `setSize(newSize)`: insert(count/range), append, growing resize / assign -/
  | growTo (needed newSize : Nat)
  /-- `adjustCapacity(size+1)` then `incrSize()`: push_back, emplace_back, insert / emplace of one element -/
  | push
  /-- `setSize(newSize)` with `newSize ≤ size`: erase(range), clear, shrinking resize / assign -/
  | shrinkTo (newSize : Nat)
  /-- `decrSize()`: pop_back, erase(position) -/
  | pop
  | reserve (n : Nat)
  | shrinkToFit
deriving Repr, DecidableEq

/-- preconditions of std::vector for the operation (sizes are consistent with what the operation does) -/
def WOp.Valid (ops : BaseOps) (t : VB) : WOp → Prop
  | .growTo needed newSize => newSize ≤ needed ∧ ops.size t ≤ needed
  | .push => True
  | .shrinkTo n => n ≤ ops.size t
  | .pop => 0 < ops.size t
  | .reserve n => n ≤ ops.kMax
  | .shrinkToFit => True

def wStep (ops : BaseOps) (N : Nat) (t : VB) (fresh : Nat) : WOp → Except Exc (VB × List Eff)
  | .growTo needed newSize =>
    match wAdjust ops t needed fresh with
    | .error e => .error e
    | .ok (t', effs) => .ok (ops.setSize t' newSize, effs)
  | .push =>
    match wAdjust ops t (ops.size t + 1) fresh with
    | .error e => .error e
    | .ok (t', effs) => .ok (ops.incrSize t', effs)
  | .shrinkTo n => .ok (ops.setSize t n, [])
  | .pop => .ok (ops.decrSize t, [])
  | .reserve n => wReserve ops t n fresh
  | .shrinkToFit => .ok (ops.shrinkImpl t N fresh)

/-- the size std::vector would have after the operation -/
def WOp.specSize (sz : Nat) : WOp → Nat
  | .growTo _ newSize => newSize
  | .push => sz + 1
  | .shrinkTo n => n
  | .pop => sz - 1
  | .reserve _ => sz
  | .shrinkToFit => sz

/-- the size the operation needs room for -/
def WOp.needed (sz : Nat) : WOp → Nat
  | .growTo needed _ => needed
  | .push => sz + 1
  | .reserve n => n
  | _ => 0

def isAllocEff : Eff → Bool
  | .alloc _ _ => true | .dealloc _ _ => true | .realloc _ _ _ _ _ => true | _ => false

variable {ops : BaseOps} {N : Nat}

/- ------------------------------------------------------------------------------------------------------------
   adjustCapacity
   ------------------------------------------------------------------------------------------------------------ -/

theorem wAdjust_fits (t : VB) (needed fresh : Nat) (h : needed ≤ ops.capacity t) :
    wAdjust ops t needed fresh = .ok (t, []) := by
  unfold wAdjust; rw [if_neg (by omega)]

theorem wReserve_fits (t : VB) (n fresh : Nat) (h : n ≤ ops.capacity t) :
    wReserve ops t n fresh = .ok (t, []) := by
  unfold wReserve; rw [if_neg (by omega)]

/-- a request beyond the size_type maximum throws `overflow_error` (and, the function being pure, changes nothing) -/
theorem wAdjust_overflow (L : SmallLaws ops N) (t : VB) (h : SRep N ops.kMax t) (needed fresh : Nat)
    (hn : ops.kMax < needed) : wAdjust ops t needed fresh = .error .overflow := by
  have hb := L.bounds t h
  unfold wAdjust; rw [if_pos (by omega)]
  exact L.growErr t needed false fresh .overflow (L.safeOverflow _ _ hn)

/-- a request within the size_type maximum that does not fit the capacity grows to `nextCapOf` -/
theorem wAdjust_grows (L : SmallLaws ops N) (t : VB) (h : SRep N ops.kMax t) (needed fresh : Nat)
    (hn : needed ≤ ops.kMax) (hc : ops.capacity t < needed) (h62 : ops.capacity t < 2 ^ 62) :
    wAdjust ops t needed fresh = .ok (⟨nextCapOf ops.kMax (ops.capacity t) needed, ops.size t, PtrV.blk (fresh + 0)⟩,
      growEffs (ops.isSmall t) t (ops.size t) (ops.capacity t) (nextCapOf ops.kMax (ops.capacity t) needed) fresh) := by
  unfold wAdjust; rw [if_pos hc]
  exact L.growOk t h needed false fresh _ (L.safeGrow _ _ hn h62)

theorem nextCapOf_props (kMax old n : Nat) (h : n ≤ kMax) :
    n ≤ nextCapOf kMax old n ∧ nextCapOf kMax old n ≤ kMax
      ∧ (nextCapOf kMax old n = kMax ∨ (3 * old + 1) / 2 ≤ nextCapOf kMax old n) := by
  unfold nextCapOf; simp only [Nat.min_def, Nat.max_def]; repeat' split
  all_goals omega

/-- outcome of `adjustCapacity` in all cases -/
theorem wAdjust_cases (L : SmallLaws ops N) (t : VB) (h : SRep N ops.kMax t) (needed fresh : Nat)
    (h62 : ops.capacity t < 2 ^ 62) :
    (ops.kMax < needed ∧ wAdjust ops t needed fresh = .error .overflow)
    ∨ (needed ≤ ops.capacity t ∧ wAdjust ops t needed fresh = .ok (t, []))
    ∨ (needed ≤ ops.kMax ∧ ops.capacity t < needed ∧ ∃ t' effs, wAdjust ops t needed fresh = .ok (t', effs)
        ∧ SRep N ops.kMax t' ∧ ops.size t' = ops.size t ∧ needed ≤ ops.capacity t' ∧ ops.isSmall t' = false
        ∧ ops.capacity t' = nextCapOf ops.kMax (ops.capacity t) needed
        ∧ effs = growEffs (ops.isSmall t) t (ops.size t) (ops.capacity t) (ops.capacity t') fresh) := by
  have hb := L.bounds t h
  by_cases h1 : ops.kMax < needed
  · exact Or.inl ⟨h1, wAdjust_overflow L t h needed fresh h1⟩
  · by_cases h2 : needed ≤ ops.capacity t
    · exact Or.inr (Or.inl ⟨h2, wAdjust_fits t needed fresh h2⟩)
    · right; right
      have hn : needed ≤ ops.kMax := by omega
      have hc : ops.capacity t < needed := by omega
      have hp := nextCapOf_props ops.kMax (ops.capacity t) needed hn
      have hg := L.grownRep (ops.size t) (nextCapOf ops.kMax (ops.capacity t) needed) (PtrV.blk (fresh + 0))
        (by omega) hp.2.1
      refine ⟨hn, hc, _, _, wAdjust_grows L t h needed fresh hn hc h62, hg.1, hg.2.1, ?_, hg.2.2.2, hg.2.2.1, ?_⟩
      · rw [hg.2.2.1]; exact hp.1
      · rw [hg.2.2.1]

end AmcVerif
