/-! Model of `FlatSet::insert_val` and of the nine-exit decision tree `FlatSet::insert_hint`
(`flatset.hpp`), over a list and a Bool-valued comparator (the comparator *object* stored in the set). -/
namespace AmcVerif.FS
variable {α : Type}

/-- strict weak order on a Bool-valued comparator -/
structure SWO (lt : α → α → Bool) : Prop where
  irrefl : ∀ a, lt a a = false
  trans : ∀ a b c, lt a b = true → lt b c = true → lt a c = true
  /-- incomparability is transitive, stated as: a<c implies a<b or b<c -/
  cotrans : ∀ a b c, lt a c = true → lt a b = true ∨ lt b c = true

/-- strictly increasing (hence duplicate-free up to equivalence) -/
def Sorted (lt : α → α → Bool) (l : List α) : Prop := l.Pairwise (fun a b => lt a b = true)

/-- std::lower_bound as a specification: number of leading elements strictly below v -/
def lowerIdx (lt : α → α → Bool) (l : List α) (v : α) : Nat := (l.takeWhile (fun x => lt x v)).length

/-- FlatSet::insert_val : (new list, index of the element equivalent to v, inserted?) -/
def insertVal (lt : α → α → Bool) (l : List α) (v : α) : List α × Nat × Bool :=
  let i := lowerIdx lt l v
  match l[i]? with
  | some x => if lt v x then (l.insertIdx i v, i, true) else (l, i, false)
  | none => (l.insertIdx i v, i, true)

/-- exit `v < *prev(hint)`: lower_bound(begin, prevIt, v) then conditional insert -/
def searchBefore (lt : α → α → Bool) (l : List α) (h : Nat) (v : α) : List α × Nat :=
  let i := lowerIdx lt (l.take (h-1)) v
  if i = h-1 then (l.insertIdx i v, i)
  else match l[i]? with
    | some x => if lt v x then (l.insertIdx i v, i) else (l, i)
    | none => (l.insertIdx i v, i)

/-- FlatSet::insert_hint, exit by exit (hint h is an index, 0 ≤ h ≤ length) -/
def insertHint (lt : α → α → Bool) (l : List α) (h : Nat) (v : α) : List α × Nat :=
  let n := l.length
  let hintGeV : Bool := match l[h]? with | some x => !lt x v | none => true      -- hint == e || !comp(*hint, v)
  if hintGeV then
    let prevLeV : Bool := if h = 0 then true else match l[h-1]? with | some p => !lt v p | none => true
    if prevLeV then
      match l[h]? with
      | some x => if !lt v x then (l, h) else            -- *hint equivalent to v
          (if h ≠ 0 then match l[h-1]? with
            | some p => if !lt p v then (l, h-1) else (l.insertIdx h v, h)
            | none => (l.insertIdx h v, h)
           else (l.insertIdx h v, h))
      | none =>
          (if h ≠ 0 then match l[h-1]? with
            | some p => if !lt p v then (l, h-1) else (l.insertIdx h v, h)
            | none => (l.insertIdx h v, h)
           else (l.insertIdx h v, h))
    else
      searchBefore lt l h v
  else
    let nx := h+1
    match l[nx]? with
    | none => (l.insertIdx nx v, nx)                                       -- nextIt == e
    | some y =>
      if !lt y v then (if !lt v y then (l, nx) else (l.insertIdx nx v, nx))
      else let r := insertVal lt l v; (r.1, r.2.1)
  where n := l.length

end AmcVerif.FS
