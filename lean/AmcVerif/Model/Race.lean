/-! Interleaving model for C20 (concurrent const access is race-free).  Core Lean only.

Memory is a set of *locations*.  An *operation* (one call of a member function) is a list of atomic *accesses*
(read or write of one location); a *thread* issues operations one after the other; an *interleaving* of the
threads is any merge of their access sequences that keeps each thread's own order.  There is no synchronisation
in the model, hence no happens-before edge between different threads: two accesses of different threads to the
same location, at least one of them a write, are a data race wherever they stand in the interleaving. -/
namespace AmcVerif.Race

abbrev Loc := Nat
abbrev Tid := Nat

/-- one atomic access; a write stores `val` -/
structure Access where
  isWrite : Bool
  loc : Loc
  val : Nat := 0
deriving DecidableEq, Repr

def rd (l : Loc) : Access := { isWrite := false, loc := l }
def wr (l : Loc) (v : Nat) : Access := { isWrite := true, loc := l, val := v }

/-- an operation: the accesses one call performs, in program order -/
abbrev Op := List Access
/-- a thread: the operations it issues, in program order -/
abbrev Thread := List Op

/-- an operation that only reads (the footprint of a const member function: no write) -/
def Op.readOnly (o : Op) : Prop := ∀ a ∈ o, a.isWrite = false

instance (o : Op) : Decidable o.readOnly := by unfold Op.readOnly; exact inferInstance

/-- an access as it appears in an execution: tagged with the thread that performs it -/
structure Event where
  tid : Tid
  acc : Access
deriving DecidableEq, Repr

/-- the access sequence of every thread, tagged with the thread's index (starting at `i`) -/
def tagFrom (i : Nat) : List Thread → List (List Event)
  | [] => []
  | t :: ts => (t.flatten.map (Event.mk i)) :: tagFrom (i + 1) ts

def events (progs : List Thread) : List (List Event) := tagFrom 0 progs

/-- `Interleaving ts tr`: the trace `tr` is a merge of the sequences `ts` (any number of threads, any schedule) -/
inductive Interleaving : List (List Event) → List Event → Prop
  | done (ts : List (List Event)) : (∀ t ∈ ts, t = []) → Interleaving ts []
  | step (ts : List (List Event)) (i : Nat) (e : Event) (rest tr : List Event) :
      ts[i]? = some (e :: rest) → Interleaving (ts.set i rest) tr → Interleaving ts (e :: tr)

/-- two accesses conflict: different threads, same location, at least one write -/
def Conflict (a b : Event) : Prop :=
  a.tid ≠ b.tid ∧ a.acc.loc = b.acc.loc ∧ (a.acc.isWrite = true ∨ b.acc.isWrite = true)

instance (a b : Event) : Decidable (Conflict a b) := by unfold Conflict; exact inferInstance

def HasConflict (tr : List Event) : Prop := ∃ a ∈ tr, ∃ b ∈ tr, Conflict a b

def RaceFree (tr : List Event) : Prop := ¬ HasConflict tr

/-- memory and the values the reads of a trace return -/
abbrev Mem := Loc → Nat

def Mem.write (m : Mem) (l : Loc) (v : Nat) : Mem := fun x => if x = l then v else m x

/-- run a trace: final memory and, in order, what every read returned `(thread, location, value)` -/
def run : Mem → List Event → Mem × List (Tid × Loc × Nat)
  | m, [] => (m, [])
  | m, e :: tr =>
    if e.acc.isWrite then run (m.write e.acc.loc e.acc.val) tr
    else let r := run m tr; (r.1, (e.tid, e.acc.loc, m e.acc.loc) :: r.2)

/-- every event of a merge comes from one of the merged sequences -/
theorem Interleaving.mem_source {ts : List (List Event)} {tr : List Event} (h : Interleaving ts tr) :
    ∀ e ∈ tr, ∃ t ∈ ts, e ∈ t := by
  induction h with
  | done ts _ => intro e he; cases he
  | step ts i e rest tr hi _ ih =>
    intro x hx
    have hmem : (e :: rest) ∈ ts := List.mem_of_getElem? hi
    cases hx with
    | head => exact ⟨e :: rest, hmem, List.mem_cons_self⟩
    | tail _ hx' =>
      obtain ⟨t, ht, hxt⟩ := ih x hx'
      rcases List.mem_or_eq_of_mem_set ht with h1 | h1
      · exact ⟨t, h1, hxt⟩
      · rw [h1] at hxt; exact ⟨e :: rest, hmem, List.mem_cons_of_mem _ hxt⟩

/-- every event of a merge keeps the thread tag and satisfies what all events of all sequences satisfy -/
theorem Interleaving.forall_of_sources {ts : List (List Event)} {tr : List Event} (h : Interleaving ts tr)
    (P : Event → Prop) (hp : ∀ t ∈ ts, ∀ e ∈ t, P e) : ∀ e ∈ tr, P e := by
  intro e he
  obtain ⟨t, ht, het⟩ := h.mem_source e he
  exact hp t ht e het

/-- what the tagged sequences contain: the accesses of thread `i + k`'s operations, tagged `i + k` -/
theorem mem_tagFrom {progs : List Thread} {i : Nat} {evs : List Event} (h : evs ∈ tagFrom i progs) :
    ∃ (k : Nat) (t : Thread), progs[k]? = some t ∧ evs = t.flatten.map (Event.mk (i + k)) := by
  induction progs generalizing i with
  | nil => cases h
  | cons t ts ih =>
    simp only [tagFrom, List.mem_cons] at h
    rcases h with h | h
    · exact ⟨0, t, by simp, by simpa using h⟩
    · obtain ⟨k, t', hk, he⟩ := ih h
      refine ⟨k + 1, t', by simpa using hk, ?_⟩
      rw [he, show i + 1 + k = i + (k + 1) by omega]

end AmcVerif.Race
