import AmcVerif.Prim.Slot
/-! Model of `include/amc/memory.hpp` over plain slot buffers (C15).

Every algorithm is a *pure, total function* on buffers `List (Slot α)`; the range starts at index 0 of the buffer it
is given and whatever follows the first `n` slots is memory the algorithm must not touch. `k : Option Nat` is the
fault schedule: `some j` means "the construction with index `j` (0-based) throws", `none` means nothing throws.

Three layers:

* `Arm.*`   — the implementation arms of memory.hpp as written: `dflt` (element-wise loop inside `try`, clean-up
              `amc::destroy(dest, current); throw;` in the `catch`), `inALoop` (`MemMoveInALoop`: one `memcpy`/`memmove`
              per element), `memMove` (`MemMove`: one bulk call guarded by `count > 0`), and the pre-C++17
              emulations of `destroy*`, `uninitialized_default/value_construct*`, `construct_at`.
* `Spec.*`  — the C++17/20 standard's specification of the same algorithm, written as its *net effect* (no loop):
              [specialized.algorithms]: on an exception the objects constructed so far are destroyed; relocation =
              move-construct then destroy the source.
* `Amc.*`   — what a call `amc::X(...)` runs under a given language standard, iterator kinds and element traits:
              the `#if AMC_CXX17 / AMC_CXX20` ladders and `ImplModeFactory` (`implMode`).

Lifetime faults (`Fault`) are raised when an arm does something the C++ object model forbids: constructing over an
object, destroying or reading raw storage, reading a moved-from object, or copying bytes of a type whose trait does not
allow it (`bitwiseNTR`). -/
namespace AmcVerif.MemAlgo
open AmcVerif

variable {α : Type}

/- ---------------------------------------------------------------------------------------------------------
   vocabulary
   --------------------------------------------------------------------------------------------------------- -/

/-- result of a call: the returned iterator advance(s) (`advSrc` is 0 for algorithms that return only the output /
    range iterator, both are 0 for `void` ones), an exception escaping the call, or undefined behaviour -/
inductive Outcome where
  | done (advSrc advDst : Nat)
  | thrown
  | fault (f : Fault)
deriving DecidableEq, Repr, Inhabited

/-- result of a two-range algorithm -/
structure Res (α : Type) where
  src : List (Slot α)
  dst : List (Slot α)
  out : Outcome
deriving DecidableEq, Repr

/-- result of a one-range algorithm -/
structure Res1 (α : Type) where
  buf : List (Slot α)
  out : Outcome
deriving DecidableEq, Repr

/-- the element type as memory.hpp sees it -/
structure Ty where
  /-- `std::is_trivially_copyable<T>` -/
  trivCopy : Bool
  /-- `amc::is_trivially_relocatable<T>` -/
  trivReloc : Bool
  /-- `std::is_trivially_default_constructible<T>` -/
  trivDflt : Bool
deriving DecidableEq, Repr, Inhabited

/-- `std::is_trivial<T>` -/
def Ty.trivial (t : Ty) : Bool := t.trivCopy && t.trivDflt

/-- a moved-from object: an unchanged copy for trivially copyable types, otherwise alive but hollow -/
def Ty.movedFrom (t : Ty) (v : α) : Slot α := if t.trivCopy then .live v else .hollow

/-- what a moved-from *slot* looks like -/
def Ty.mf (t : Ty) : Slot α → Slot α
  | .live v => t.movedFrom v
  | s => s

/-- value of a default-initialised object: indeterminate for trivially default constructible types -/
def Ty.defaultVal (t : Ty) (dflt indet : α) : α := if t.trivDflt then indet else dflt

inductive Std where
  | cxx11 | cxx14 | cxx17 | cxx20
deriving DecidableEq, Repr, Inhabited

/-- `AMC_CXX17` -/
def Std.has17 : Std → Bool
  | .cxx17 | .cxx20 => true
  | _ => false

/-- `AMC_CXX20` -/
def Std.has20 : Std → Bool
  | .cxx20 => true
  | _ => false

/-- the iterator facts `ImplModeFactory` looks at -/
structure It where
  isPointerIn : Bool
  isPointerOut : Bool
  /-- `is_same<InputType, OutputType>` -/
  sameType : Bool
  /-- `is_rvalue_reference<iterator_traits<InputIt>::reference>` (a `std::move_iterator` source) -/
  rvalueRef : Bool
deriving DecidableEq, Repr, Inhabited

inductive Mode where
  | dflt | memMoveInALoop | memMove
deriving DecidableEq, Repr, Inhabited

/-- `memory_details::ImplModeFactory<InputIt, OutputIt, IsMemMovePossible>::type` -/
def implMode (isPointerIn isPointerOut : Bool) (memMovePossible sameType rvalueRef : Bool) : Mode :=
  if memMovePossible && sameType && !rvalueRef then
    (if isPointerIn && isPointerOut then .memMove else .memMoveInALoop)
  else .dflt

def It.mode (it : It) (memMovePossible : Bool) : Mode :=
  implMode it.isPointerIn it.isPointerOut memMovePossible it.sameType it.rvalueRef

/-- the schedule fires inside a range of `n` constructions -/
def throwAt (k : Option Nat) (n : Nat) : Option Nat :=
  match k with
  | some j => if j < n then some j else none
  | none => none

def Slot.isLive : Slot α → Bool
  | .live _ => true
  | _ => false

def Slot.isRaw : Slot α → Bool
  | .raw => true
  | _ => false

/-- the first `n` slots exist and hold readable objects -/
def allLive (n : Nat) (b : List (Slot α)) : Bool := decide (n ≤ b.length) && (b.take n).all Slot.isLive
/-- the first `n` slots exist and hold no object -/
def allRaw (n : Nat) (b : List (Slot α)) : Bool := decide (n ≤ b.length) && (b.take n).all Slot.isRaw
/-- the first `n` slots exist and hold objects (possibly moved-from) -/
def allAlive (n : Nat) (b : List (Slot α)) : Bool := decide (n ≤ b.length) && (b.take n).all (fun s => !Slot.isRaw s)

/- ---------------------------------------------------------------------------------------------------------
   loops
   --------------------------------------------------------------------------------------------------------- -/

inductive Stop where
  | finished
  | threw
  | fault (f : Fault)
deriving DecidableEq, Repr, Inhabited

/-- state when a `for (; count > 0; ++first, ++current, --count)` loop is left: buffers, number of completed
    iterations (`current - dest`), and why -/
structure Loop (α : Type) where
  src : List (Slot α)
  dst : List (Slot α)
  pos : Nat
  stop : Stop
deriving Repr

inductive Step2 (α : Type) where
  | ok (s d : Slot α)
  | throw
  | fault (f : Fault)

/-- `n` iterations of a loop body acting on `*first` / `*current`, iteration counter starting at `i` -/
def loop2 (step : Nat → Slot α → Slot α → Step2 α) : Nat → Nat → List (Slot α) → List (Slot α) → Loop α
  | i, 0, src, dst => ⟨src, dst, i, .finished⟩
  | i, n+1, s :: src, d :: dst =>
    match step i s d with
    | .ok s' d' =>
      let r := loop2 step (i+1) n src dst
      ⟨s' :: r.src, d' :: r.dst, r.pos, r.stop⟩
    | .throw => ⟨s :: src, d :: dst, i, .threw⟩
    | .fault f => ⟨s :: src, d :: dst, i, .fault f⟩
  | i, _+1, src, dst => ⟨src, dst, i, .fault .oob⟩

structure Loop1 (α : Type) where
  buf : List (Slot α)
  pos : Nat
  stop : Stop
deriving Repr

inductive Step1 (α : Type) where
  | ok (d : Slot α)
  | throw
  | fault (f : Fault)

/-- `n` iterations of a loop body acting on `*current` -/
def loop1 (step : Nat → Slot α → Step1 α) : Nat → Nat → List (Slot α) → Loop1 α
  | i, 0, b => ⟨b, i, .finished⟩
  | i, n+1, d :: b =>
    match step i d with
    | .ok d' =>
      let r := loop1 step (i+1) n b
      ⟨d' :: r.buf, r.pos, r.stop⟩
    | .throw => ⟨d :: b, i, .threw⟩
    | .fault f => ⟨d :: b, i, .fault f⟩
  | i, _+1, b => ⟨b, i, .fault .oob⟩

/- loop bodies -/

/-- `::new (addressof(*current)) T(*first)` -/
def copyStep (k : Option Nat) (i : Nat) : Slot α → Slot α → Step2 α
  | .live v, .raw => if k = some i then .throw else .ok (.live v) (.live v)
  | .live _, _ => .fault .constructOnAlive
  | .hollow, _ => .fault .readHollow
  | .raw, _ => .fault .readDead

/-- `::new (addressof(*current)) T(std::move(*first))` -/
def moveStep (ty : Ty) (k : Option Nat) (i : Nat) : Slot α → Slot α → Step2 α
  | .live v, .raw => if k = some i then .throw else .ok (ty.movedFrom v) (.live v)
  | .live _, _ => .fault .constructOnAlive
  | .hollow, _ => .fault .readHollow
  | .raw, _ => .fault .readDead

/-- the construction performed by `construct_at(p, *first)`: a move when `*first` is an rvalue reference -/
def ctorStep (rvalue : Bool) (ty : Ty) (k : Option Nat) : Nat → Slot α → Slot α → Step2 α :=
  if rvalue then moveStep ty k else copyStep k

/-- `memcpy(addressof(*dest), addressof(*first), sizeof(T))`: the source keeps its object; `allowed` = the trait that
    makes a byte-wise copy of a `T` legal -/
def bitCopyStep (allowed : Bool) (_ : Nat) : Slot α → Slot α → Step2 α
  | .live v, .raw => if allowed then .ok (.live v) (.live v) else .fault .bitwiseNTR
  | .live _, _ => .fault .constructOnAlive
  | .hollow, _ => .fault .readHollow
  | .raw, _ => .fault .readDead

/-- `memmove(dest, elem, sizeof(T))` used as a relocation: the object now lives at the destination -/
def bitRelocStep (allowed : Bool) (_ : Nat) : Slot α → Slot α → Step2 α
  | .live v, .raw => if allowed then .ok .raw (.live v) else .fault .bitwiseNTR
  | .live _, _ => .fault .constructOnAlive
  | .hollow, _ => .fault .readHollow
  | .raw, _ => .fault .readDead

/-- `p->~T()` -/
def destroyStep (_ : Nat) : Slot α → Step1 α
  | .raw => .fault .destroyDead
  | _ => .ok .raw

/-- `::new (p) T` / `::new (p) T()` producing value `z` -/
def initStep (z : α) (k : Option Nat) (i : Nat) : Slot α → Step1 α
  | .raw => if k = some i then .throw else .ok (.live z)
  | _ => .fault .constructOnAlive

/-- `*p = T()` of `std::fill` on a trivial type: plain store -/
def fillStep (z : α) (_ : Nat) : Slot α → Step1 α
  | _ => .ok (.live z)

/-- vacuous initialisation of a trivially default constructible type: no code runs, the object exists with an
    indeterminate value -/
def vacuousStep (indet : α) (_ : Nat) : Slot α → Step1 α
  | .raw => .ok (.live indet)
  | _ => .fault .constructOnAlive

/- ---------------------------------------------------------------------------------------------------------
   primitives: destroy range (used by the clean-up handlers), bulk memcpy / memmove
   --------------------------------------------------------------------------------------------------------- -/

/-- pre-C++17 `amc::destroy(first, first + n)` / `amc::destroy_n(first, n)`: the loop over `destroy_at` -/
def destroyLoop (n : Nat) (b : List (Slot α)) : Loop1 α := loop1 destroyStep 0 n b

/-- `catch (...) { amc::destroy(dest, current); throw; }` after a two-range loop; `ret` builds the return value from
    `current - dest` when the loop finished -/
def guarded2 (r : Loop α) (ret : Nat → Outcome) : Res α :=
  match r.stop with
  | .finished => ⟨r.src, r.dst, ret r.pos⟩
  | .threw =>
    let c := destroyLoop r.pos r.dst
    match c.stop with
    | .fault f => ⟨r.src, c.buf, .fault f⟩
    | _ => ⟨r.src, c.buf, .thrown⟩
  | .fault f => ⟨r.src, r.dst, .fault f⟩

def guarded1 (r : Loop1 α) (ret : Nat → Outcome) : Res1 α :=
  match r.stop with
  | .finished => ⟨r.buf, ret r.pos⟩
  | .threw =>
    let c := destroyLoop r.pos r.buf
    match c.stop with
    | .fault f => ⟨c.buf, .fault f⟩
    | _ => ⟨c.buf, .thrown⟩
  | .fault f => ⟨r.buf, .fault f⟩

/-- a loop without handler (the memcpy arms cannot throw) -/
def unguarded2 (r : Loop α) (ret : Nat → Outcome) : Res α :=
  match r.stop with
  | .finished => ⟨r.src, r.dst, ret r.pos⟩
  | .threw => ⟨r.src, r.dst, .thrown⟩
  | .fault f => ⟨r.src, r.dst, .fault f⟩

def unguarded1 (r : Loop1 α) (ret : Nat → Outcome) : Res1 α :=
  match r.stop with
  | .finished => ⟨r.buf, ret r.pos⟩
  | .threw => ⟨r.buf, .thrown⟩
  | .fault f => ⟨r.buf, .fault f⟩

/-- `std::memcpy(dest, first, n * sizeof(T))` -/
def memcpyN (allowed : Bool) (n : Nat) (src dst : List (Slot α)) : Loop α := loop2 (bitCopyStep allowed) 0 n src dst
/-- `std::memmove(dest, first, n * sizeof(T))` relocating `n` objects -/
def memmoveRelocN (allowed : Bool) (n : Nat) (src dst : List (Slot α)) : Loop α := loop2 (bitRelocStep allowed) 0 n src dst

/- ---------------------------------------------------------------------------------------------------------
   the standard's specification (net effects)
   --------------------------------------------------------------------------------------------------------- -/
namespace Spec

def precond1 (b : List (Slot α)) : Res1 α := ⟨b, .fault .precond⟩
def precond2 (src dst : List (Slot α)) : Res α := ⟨src, dst, .fault .precond⟩

/-- `std::destroy_n(first, n)`: every object of the range is destroyed; returns `first + n` -/
def destroyN (n : Nat) (b : List (Slot α)) : Res1 α :=
  if allAlive n b then ⟨List.replicate n .raw ++ b.drop n, .done 0 n⟩ else precond1 b

/-- `std::destroy(first, last)` with `last - first = n` -/
def destroy (n : Nat) (b : List (Slot α)) : Res1 α :=
  if allAlive n b then ⟨List.replicate n .raw ++ b.drop n, .done 0 0⟩ else precond1 b

/-- `std::destroy_at(p)` -/
def destroyAt (b : List (Slot α)) : Res1 α :=
  if allAlive 1 b then ⟨.raw :: b.drop 1, .done 0 0⟩ else precond1 b

/-- `std::uninitialized_copy_n(first, n, dest)`; with an rvalue source (`move_iterator`) each construction is a move.
    An exception leaves no object behind in the destination. Returns `dest + n`. -/
def uninitCopyN (rvalue : Bool) (ty : Ty) (k : Option Nat) (n : Nat) (src dst : List (Slot α)) : Res α :=
  if allLive n src && allRaw n dst then
    match throwAt k n with
    | some j => ⟨if rvalue then (src.take j).map ty.mf ++ src.drop j else src, dst, .thrown⟩
    | none => ⟨if rvalue then (src.take n).map ty.mf ++ src.drop n else src, src.take n ++ dst.drop n, .done 0 n⟩
  else precond2 src dst

/-- `std::uninitialized_copy(first, last, dest)`, `last - first = n` -/
def uninitCopy (rvalue : Bool) (ty : Ty) (k : Option Nat) (n : Nat) (src dst : List (Slot α)) : Res α :=
  uninitCopyN rvalue ty k n src dst

/-- `std::uninitialized_move_n(first, n, dest)`: returns `{first + n, dest + n}`; on an exception the sources moved so
    far are left valid but unspecified (moved-from), the destination holds no object -/
def uninitMoveN (ty : Ty) (k : Option Nat) (n : Nat) (src dst : List (Slot α)) : Res α :=
  if allLive n src && allRaw n dst then
    match throwAt k n with
    | some j => ⟨(src.take j).map ty.mf ++ src.drop j, dst, .thrown⟩
    | none => ⟨(src.take n).map ty.mf ++ src.drop n, src.take n ++ dst.drop n, .done n n⟩
  else precond2 src dst

/-- `std::uninitialized_move(first, last, dest)`: returns `dest + n` -/
def uninitMove (ty : Ty) (k : Option Nat) (n : Nat) (src dst : List (Slot α)) : Res α :=
  if allLive n src && allRaw n dst then
    match throwAt k n with
    | some j => ⟨(src.take j).map ty.mf ++ src.drop j, dst, .thrown⟩
    | none => ⟨(src.take n).map ty.mf ++ src.drop n, src.take n ++ dst.drop n, .done 0 n⟩
  else precond2 src dst

/-- relocation = `uninitialized_move_n` followed by `destroy_n` of the sources; when a move throws the sources all
    stay alive -/
def uninitRelocN (ty : Ty) (k : Option Nat) (n : Nat) (src dst : List (Slot α)) : Res α :=
  if allLive n src && allRaw n dst then
    match throwAt k n with
    | some j => ⟨(src.take j).map ty.mf ++ src.drop j, dst, .thrown⟩
    | none => ⟨List.replicate n .raw ++ src.drop n, src.take n ++ dst.drop n, .done n n⟩
  else precond2 src dst

def uninitReloc (ty : Ty) (k : Option Nat) (n : Nat) (src dst : List (Slot α)) : Res α :=
  if allLive n src && allRaw n dst then
    match throwAt k n with
    | some j => ⟨(src.take j).map ty.mf ++ src.drop j, dst, .thrown⟩
    | none => ⟨List.replicate n .raw ++ src.drop n, src.take n ++ dst.drop n, .done 0 n⟩
  else precond2 src dst

/-- relocation of one object; returns `dest` -/
def relocateAt (_ty : Ty) (k : Option Nat) (src dst : List (Slot α)) : Res α :=
  if allLive 1 src && allRaw 1 dst then
    match throwAt k 1 with
    | some _ => ⟨src, dst, .thrown⟩
    | none => ⟨.raw :: src.drop 1, src.take 1 ++ dst.drop 1, .done 0 0⟩
  else precond2 src dst

/-- `std::uninitialized_default_construct_n(first, n)` -/
def uninitDefaultN (ty : Ty) (dflt indet : α) (k : Option Nat) (n : Nat) (b : List (Slot α)) : Res1 α :=
  if allRaw n b then
    match throwAt k n with
    | some _ => ⟨b, .thrown⟩
    | none => ⟨List.replicate n (.live (ty.defaultVal dflt indet)) ++ b.drop n, .done 0 n⟩
  else precond1 b

def uninitDefault (ty : Ty) (dflt indet : α) (k : Option Nat) (n : Nat) (b : List (Slot α)) : Res1 α :=
  if allRaw n b then
    match throwAt k n with
    | some _ => ⟨b, .thrown⟩
    | none => ⟨List.replicate n (.live (ty.defaultVal dflt indet)) ++ b.drop n, .done 0 0⟩
  else precond1 b

/-- `std::uninitialized_value_construct_n(first, n)`; `zero` is the value of `T()` -/
def uninitValueN (zero : α) (k : Option Nat) (n : Nat) (b : List (Slot α)) : Res1 α :=
  if allRaw n b then
    match throwAt k n with
    | some _ => ⟨b, .thrown⟩
    | none => ⟨List.replicate n (.live zero) ++ b.drop n, .done 0 n⟩
  else precond1 b

def uninitValue (zero : α) (k : Option Nat) (n : Nat) (b : List (Slot α)) : Res1 α :=
  if allRaw n b then
    match throwAt k n with
    | some _ => ⟨b, .thrown⟩
    | none => ⟨List.replicate n (.live zero) ++ b.drop n, .done 0 0⟩
  else precond1 b

/-- `std::construct_at(dest, *src)` (copy); returns `dest` -/
def constructAtCopy (k : Option Nat) (src dst : List (Slot α)) : Res α :=
  if allLive 1 src && allRaw 1 dst then
    match throwAt k 1 with
    | some _ => ⟨src, dst, .thrown⟩
    | none => ⟨src, src.take 1 ++ dst.drop 1, .done 0 0⟩
  else precond2 src dst

/-- `std::construct_at(dest, std::move(*src))` -/
def constructAtMove (ty : Ty) (k : Option Nat) (src dst : List (Slot α)) : Res α :=
  if allLive 1 src && allRaw 1 dst then
    match throwAt k 1 with
    | some _ => ⟨src, dst, .thrown⟩
    | none => ⟨(src.take 1).map ty.mf ++ src.drop 1, src.take 1 ++ dst.drop 1, .done 0 0⟩
  else precond2 src dst

/-- `std::construct_at(dest)` (value initialisation) -/
def constructAtValue (zero : α) (k : Option Nat) (b : List (Slot α)) : Res1 α :=
  if allRaw 1 b then
    match throwAt k 1 with
    | some _ => ⟨b, .thrown⟩
    | none => ⟨.live zero :: b.drop 1, .done 0 0⟩
  else precond1 b

end Spec

/- ---------------------------------------------------------------------------------------------------------
   the implementation arms of memory.hpp
   --------------------------------------------------------------------------------------------------------- -/
namespace Arm

/-- pre-C++17 `destroy_n`: loop, returns `first` after the loop -/
def destroyN (n : Nat) (b : List (Slot α)) : Res1 α := unguarded1 (destroyLoop n b) (fun p => .done 0 p)
/-- pre-C++17 `destroy(first, last)` -/
def destroy (n : Nat) (b : List (Slot α)) : Res1 α := unguarded1 (destroyLoop n b) (fun _ => .done 0 0)
/-- pre-C++17 `destroy_at` (non-array overload) -/
def destroyAt (b : List (Slot α)) : Res1 α := unguarded1 (destroyLoop 1 b) (fun _ => .done 0 0)

/-- `uninitialized_copy_n_impl(..., Default)` -/
def copyNDflt (rvalue : Bool) (ty : Ty) (k : Option Nat) (n : Nat) (src dst : List (Slot α)) : Res α :=
  guarded2 (loop2 (ctorStep rvalue ty k) 0 n src dst) (fun p => .done 0 p)
/-- `uninitialized_copy_n_impl(..., MemMoveInALoop)` -/
def copyNInALoop (allowed : Bool) (n : Nat) (src dst : List (Slot α)) : Res α :=
  unguarded2 (loop2 (bitCopyStep allowed) 0 n src dst) (fun p => .done 0 p)
/-- `uninitialized_copy_n_impl(..., MemMove)`: `if (count > 0) memcpy(...); return dest + count;` -/
def copyNMemMove (allowed : Bool) (n : Nat) (src dst : List (Slot α)) : Res α :=
  if n > 0 then unguarded2 (memcpyN allowed n src dst) (fun _ => .done 0 n) else ⟨src, dst, .done 0 n⟩

/-- `uninitialized_copy_impl(..., Default)` = `std::uninitialized_copy` (libstdc++: the same guarded loop) -/
def copyDflt (rvalue : Bool) (ty : Ty) (k : Option Nat) (n : Nat) (src dst : List (Slot α)) : Res α :=
  guarded2 (loop2 (ctorStep rvalue ty k) 0 n src dst) (fun p => .done 0 p)
def copyInALoop (allowed : Bool) (n : Nat) (src dst : List (Slot α)) : Res α :=
  unguarded2 (loop2 (bitCopyStep allowed) 0 n src dst) (fun p => .done 0 p)
/-- `count = last - first; if (count > 0) memcpy(...); return dest + count;` -/
def copyMemMove (allowed : Bool) (n : Nat) (src dst : List (Slot α)) : Res α :=
  if n > 0 then unguarded2 (memcpyN allowed n src dst) (fun _ => .done 0 n) else ⟨src, dst, .done 0 n⟩

/-- `uninitialized_move_n_impl(..., Default)`: returns `{first, current}` -/
def moveNDflt (ty : Ty) (k : Option Nat) (n : Nat) (src dst : List (Slot α)) : Res α :=
  guarded2 (loop2 (moveStep ty k) 0 n src dst) (fun p => .done p p)
def moveNInALoop (allowed : Bool) (n : Nat) (src dst : List (Slot α)) : Res α :=
  unguarded2 (loop2 (bitCopyStep allowed) 0 n src dst) (fun p => .done p p)
/-- `{first + count, uninitialized_copy_n_impl(first, count, dest, MemMove())}` -/
def moveNMemMove (allowed : Bool) (n : Nat) (src dst : List (Slot α)) : Res α :=
  let r := copyNMemMove allowed n src dst
  match r.out with
  | .done _ d => ⟨r.src, r.dst, .done n d⟩
  | _ => r

/-- `uninitialized_move_impl(..., Default)` = `std::uninitialized_copy(make_move_iterator(first), ...)` -/
def moveDflt (ty : Ty) (k : Option Nat) (n : Nat) (src dst : List (Slot α)) : Res α :=
  copyDflt true ty k n src dst
def moveInALoop (allowed : Bool) (n : Nat) (src dst : List (Slot α)) : Res α := copyInALoop allowed n src dst
def moveMemMove (allowed : Bool) (n : Nat) (src dst : List (Slot α)) : Res α := copyMemMove allowed n src dst

/-- pre-C++17 `uninitialized_default_construct_n`, non-trivial overload -/
def defaultNLoop (dflt : α) (k : Option Nat) (n : Nat) (b : List (Slot α)) : Res1 α :=
  guarded1 (loop1 (initStep dflt k) 0 n b) (fun p => .done 0 p)
/-- trivially default constructible overload: `std::advance(first, n); return first;` -/
def defaultNTrivial (indet : α) (n : Nat) (b : List (Slot α)) : Res1 α :=
  unguarded1 (loop1 (vacuousStep indet) 0 n b) (fun _ => .done 0 n)
def defaultLoop (dflt : α) (k : Option Nat) (n : Nat) (b : List (Slot α)) : Res1 α :=
  guarded1 (loop1 (initStep dflt k) 0 n b) (fun _ => .done 0 0)
/-- trivially default constructible overload: empty body -/
def defaultTrivial (indet : α) (n : Nat) (b : List (Slot α)) : Res1 α :=
  unguarded1 (loop1 (vacuousStep indet) 0 n b) (fun _ => .done 0 0)

/-- pre-C++17 `uninitialized_value_construct_n`, non-trivial overload: loop over `amc::construct_at(p)` -/
def valueNLoop (zero : α) (k : Option Nat) (n : Nat) (b : List (Slot α)) : Res1 α :=
  guarded1 (loop1 (initStep zero k) 0 n b) (fun p => .done 0 p)
/-- trivial overload: `return std::fill_n(first, n, T());` -/
def valueNTrivial (zero : α) (n : Nat) (b : List (Slot α)) : Res1 α :=
  unguarded1 (loop1 (fillStep zero) 0 n b) (fun p => .done 0 p)
def valueLoop (zero : α) (k : Option Nat) (n : Nat) (b : List (Slot α)) : Res1 α :=
  guarded1 (loop1 (initStep zero k) 0 n b) (fun _ => .done 0 0)
/-- trivial overload: `std::fill(first, last, T())` -/
def valueTrivial (zero : α) (n : Nat) (b : List (Slot α)) : Res1 α :=
  unguarded1 (loop1 (fillStep zero) 0 n b) (fun _ => .done 0 0)

/-- pre-C++20 `construct_at(dest, lvalue)`: primary template, placement new with a copy -/
def constructAtCopy (k : Option Nat) (src dst : List (Slot α)) : Res α :=
  unguarded2 (loop2 (copyStep k) 0 1 src dst) (fun _ => .done 0 0)
/-- pre-C++20 `construct_at(dest, T&&)`: specialisation; `memcpy` for trivially copyable types, else placement new
    with a move -/
def constructAtMove (ty : Ty) (k : Option Nat) (src dst : List (Slot α)) : Res α :=
  if ty.trivCopy then unguarded2 (memcpyN ty.trivCopy 1 src dst) (fun _ => .done 0 0)
  else unguarded2 (loop2 (moveStep ty k) 0 1 src dst) (fun _ => .done 0 0)
/-- pre-C++20 `construct_at(dest)`: primary template, `::new (p) T()` -/
def constructAtValue (zero : α) (k : Option Nat) (b : List (Slot α)) : Res1 α :=
  unguarded1 (loop1 (initStep zero k) 0 1 b) (fun _ => .done 0 0)

/-- `uninitialized_relocate_n_impl(..., MemMoveInALoop)`: `relocate_at_impl(..., MemMove())` per element -/
def relocNInALoop (allowed : Bool) (n : Nat) (src dst : List (Slot α)) : Res α :=
  unguarded2 (loop2 (bitRelocStep allowed) 0 n src dst) (fun p => .done p p)
/-- `uninitialized_relocate_n_impl(..., MemMove)`: `if (count > 0) memmove(...); return {first + count, dest + count};` -/
def relocNMemMove (allowed : Bool) (n : Nat) (src dst : List (Slot α)) : Res α :=
  if n > 0 then unguarded2 (memmoveRelocN allowed n src dst) (fun _ => .done n n) else ⟨src, dst, .done n n⟩
def relocInALoop (allowed : Bool) (n : Nat) (src dst : List (Slot α)) : Res α :=
  unguarded2 (loop2 (bitRelocStep allowed) 0 n src dst) (fun p => .done 0 p)
def relocMemMove (allowed : Bool) (n : Nat) (src dst : List (Slot α)) : Res α :=
  if n > 0 then unguarded2 (memmoveRelocN allowed n src dst) (fun _ => .done 0 n) else ⟨src, dst, .done 0 n⟩
/-- `relocate_at_impl(elem, dest, MemMove)` -/
def relocateAtMemMove (allowed : Bool) (src dst : List (Slot α)) : Res α :=
  unguarded2 (memmoveRelocN allowed 1 src dst) (fun _ => .done 0 0)

end Arm

/- ---------------------------------------------------------------------------------------------------------
   what `amc::X` runs: #if ladders and ImplModeFactory
   --------------------------------------------------------------------------------------------------------- -/
namespace Amc

def destroyN (std : Std) (n : Nat) (b : List (Slot α)) : Res1 α :=
  if std.has17 then Spec.destroyN n b else Arm.destroyN n b
def destroy (std : Std) (n : Nat) (b : List (Slot α)) : Res1 α :=
  if std.has17 then Spec.destroy n b else Arm.destroy n b
def destroyAt (std : Std) (b : List (Slot α)) : Res1 α :=
  if std.has17 then Spec.destroyAt b else Arm.destroyAt b

def constructAtCopy (std : Std) (k : Option Nat) (src dst : List (Slot α)) : Res α :=
  if std.has20 then Spec.constructAtCopy k src dst else Arm.constructAtCopy k src dst
def constructAtMove (std : Std) (ty : Ty) (k : Option Nat) (src dst : List (Slot α)) : Res α :=
  if std.has20 then Spec.constructAtMove ty k src dst else Arm.constructAtMove ty k src dst
def constructAtValue (std : Std) (zero : α) (k : Option Nat) (b : List (Slot α)) : Res1 α :=
  if std.has20 then Spec.constructAtValue zero k b else Arm.constructAtValue zero k b

def uninitCopyN (std : Std) (it : It) (ty : Ty) (k : Option Nat) (n : Nat) (src dst : List (Slot α)) : Res α :=
  if std.has17 then Spec.uninitCopyN it.rvalueRef ty k n src dst
  else match it.mode ty.trivCopy with
    | .dflt => Arm.copyNDflt it.rvalueRef ty k n src dst
    | .memMoveInALoop => Arm.copyNInALoop ty.trivCopy n src dst
    | .memMove => Arm.copyNMemMove ty.trivCopy n src dst

def uninitCopy (std : Std) (it : It) (ty : Ty) (k : Option Nat) (n : Nat) (src dst : List (Slot α)) : Res α :=
  if std.has17 then Spec.uninitCopy it.rvalueRef ty k n src dst
  else match it.mode ty.trivCopy with
    | .dflt => Arm.copyDflt it.rvalueRef ty k n src dst
    | .memMoveInALoop => Arm.copyInALoop ty.trivCopy n src dst
    | .memMove => Arm.copyMemMove ty.trivCopy n src dst

def uninitMoveN (std : Std) (it : It) (ty : Ty) (k : Option Nat) (n : Nat) (src dst : List (Slot α)) : Res α :=
  if std.has17 then Spec.uninitMoveN ty k n src dst
  else match it.mode ty.trivCopy with
    | .dflt => Arm.moveNDflt ty k n src dst
    | .memMoveInALoop => Arm.moveNInALoop ty.trivCopy n src dst
    | .memMove => Arm.moveNMemMove ty.trivCopy n src dst

def uninitMove (std : Std) (it : It) (ty : Ty) (k : Option Nat) (n : Nat) (src dst : List (Slot α)) : Res α :=
  if std.has17 then Spec.uninitMove ty k n src dst
  else match it.mode ty.trivCopy with
    | .dflt => Arm.moveDflt ty k n src dst
    | .memMoveInALoop => Arm.moveInALoop ty.trivCopy n src dst
    | .memMove => Arm.moveMemMove ty.trivCopy n src dst

def uninitDefaultN (std : Std) (ty : Ty) (dflt indet : α) (k : Option Nat) (n : Nat) (b : List (Slot α)) : Res1 α :=
  if std.has17 then Spec.uninitDefaultN ty dflt indet k n b
  else if ty.trivDflt then Arm.defaultNTrivial indet n b else Arm.defaultNLoop dflt k n b

def uninitDefault (std : Std) (ty : Ty) (dflt indet : α) (k : Option Nat) (n : Nat) (b : List (Slot α)) : Res1 α :=
  if std.has17 then Spec.uninitDefault ty dflt indet k n b
  else if ty.trivDflt then Arm.defaultTrivial indet n b else Arm.defaultLoop dflt k n b

def uninitValueN (std : Std) (ty : Ty) (zero : α) (k : Option Nat) (n : Nat) (b : List (Slot α)) : Res1 α :=
  if std.has17 then Spec.uninitValueN zero k n b
  else if ty.trivial then Arm.valueNTrivial zero n b else Arm.valueNLoop zero k n b

def uninitValue (std : Std) (ty : Ty) (zero : α) (k : Option Nat) (n : Nat) (b : List (Slot α)) : Res1 α :=
  if std.has17 then Spec.uninitValue zero k n b
  else if ty.trivial then Arm.valueTrivial zero n b else Arm.valueLoop zero k n b

/-- `uninitialized_relocate_n_impl(..., Default)`:
    `p = amc::uninitialized_move_n(first, count, dest); amc::destroy_n(first, count); return p;` -/
def relocNDflt (std : Std) (it : It) (ty : Ty) (k : Option Nat) (n : Nat) (src dst : List (Slot α)) : Res α :=
  let r := uninitMoveN std it ty k n src dst
  match r.out with
  | .done s d =>
    let c := destroyN std n r.src
    match c.out with
    | .done _ _ => ⟨c.buf, r.dst, .done s d⟩
    | o => ⟨c.buf, r.dst, o⟩
  | _ => r

/-- `uninitialized_relocate_impl(..., Default)`:
    `dest = amc::uninitialized_move(first, last, dest); amc::destroy(first, last); return dest;` -/
def relocDflt (std : Std) (it : It) (ty : Ty) (k : Option Nat) (n : Nat) (src dst : List (Slot α)) : Res α :=
  let r := uninitMove std it ty k n src dst
  match r.out with
  | .done _ d =>
    let c := destroy std n r.src
    match c.out with
    | .done _ _ => ⟨c.buf, r.dst, .done 0 d⟩
    | o => ⟨c.buf, r.dst, o⟩
  | _ => r

def uninitRelocN (std : Std) (it : It) (ty : Ty) (k : Option Nat) (n : Nat) (src dst : List (Slot α)) : Res α :=
  match it.mode ty.trivReloc with
  | .dflt => relocNDflt std it ty k n src dst
  | .memMoveInALoop => Arm.relocNInALoop ty.trivReloc n src dst
  | .memMove => Arm.relocNMemMove ty.trivReloc n src dst

def uninitReloc (std : Std) (it : It) (ty : Ty) (k : Option Nat) (n : Nat) (src dst : List (Slot α)) : Res α :=
  match it.mode ty.trivReloc with
  | .dflt => relocDflt std it ty k n src dst
  | .memMoveInALoop => Arm.relocInALoop ty.trivReloc n src dst
  | .memMove => Arm.relocMemMove ty.trivReloc n src dst

/-- `relocate_at_impl(elem, dest, Default)`: `dest = amc::construct_at(dest, std::move(*elem)); amc::destroy_at(elem);` -/
def relocateAtDflt (std : Std) (ty : Ty) (k : Option Nat) (src dst : List (Slot α)) : Res α :=
  let r := constructAtMove std ty k src dst
  match r.out with
  | .done _ _ =>
    let c := destroyAt std r.src
    match c.out with
    | .done _ _ => ⟨c.buf, r.dst, .done 0 0⟩
    | o => ⟨c.buf, r.dst, o⟩
  | _ => r

/-- `amc::relocate_at`: `MemMove` iff `is_trivially_relocatable<T>` -/
def relocateAt (std : Std) (ty : Ty) (k : Option Nat) (src dst : List (Slot α)) : Res α :=
  if ty.trivReloc then Arm.relocateAtMemMove ty.trivReloc src dst else relocateAtDflt std ty k src dst

end Amc

end AmcVerif.MemAlgo
