import AmcVerif.Prim.Base
import AmcVerif.Model.Vec
import AmcVerif.Props.C01
import AmcVerif.Props.C05
import AmcVerif.Props.C07
import AmcVerif.Props.C08
import AmcVerif.Props.C18
import AmcVerif.Lemmas.Hint
