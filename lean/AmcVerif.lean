import AmcVerif.Prim.Base
import AmcVerif.Gen.WordsU8
import AmcVerif.Gen.WordsU16
import AmcVerif.Gen.WordsU32
import AmcVerif.Gen.WordsU64
