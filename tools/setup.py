#!/usr/bin/env python3
"""Run once after a fresh restore, offline: regenerate the Lean definitions from /repo, build the Lean library, the
model driver and the harness binaries of the quick tier (everything is cached under /verif/build and lean/.lake)."""
import os, sys, time
sys.path.insert(0, os.path.dirname(os.path.abspath(__file__)))
from vlib import common as C

def main():
    t = time.time()
    st = C.translate()
    print('translate:', 'ok' if st.get('ok') else st.get('error'))
    ok, log = C.lake_build(['AmcVerif', 'amcdriver'])
    print('lake build:', 'ok' if ok else log[-3000:])
    try:
        from props import vcommon
        from vlib import vec as V
        bins, errs = V.build(vcommon.cfgs_quick())
        print('vector harness binaries:', len(bins), 'errors:', len(errs))
    except Exception as e:
        print('harness prebuild skipped:', e)
    print(f'setup done in {time.time() - t:.0f}s')
    return 0 if ok else 1

if __name__ == '__main__':
    sys.exit(main())
