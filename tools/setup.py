#!/usr/bin/env python3
print("setup: nothing to build yet")
