#!/usr/bin/env python3
"""(re)generate MANIFEST.json from the table below; properties without an entry go to not_applicable"""
import json, os
ROOT = os.path.abspath(os.path.join(os.path.dirname(__file__), '..'))
TB = 'Trusted: Lean 4.33.0 kernel (axioms printed per theorem, at most propext/Quot.sound/Classical.choice), translator/amc2lean.py + clang 14 AST, hand-written Prim/ semantics, the C++ harness and its oracles.'
TECH = 'machine-checked proof in Lean 4 (theorems over a model tied to /repo by a clang-AST->Lean translator and by a differential correspondence check)'
P = {
 'C01': ('proof', 'Lean theorems (Props/C01.lean) over the generated size/capacity word functions (size bookkeeping of every operation shape tracks std::vector through every history; move/swap) and (Props/C01b.lean) over the slot-level model: each of 23 public operation kinds, from any state representing a list xs that satisfies the std::vector precondition, ends representing exactly the std::vector result (or throws), for every flavour and size type; histories of them end in a list the std::vector semantics allows; begin()..end() shows exactly the represented list; pools of SmallVectors (Props/C01c.lean): histories mixing all of these with copy/move assignment, swap, move/copy construction and shrink_to_fit between the containers of a pool end in the lists std::vector semantics allows, no container disturbed by an operation on another one; the model of every public operation and element helper is REGENERATED from vectorcommon.hpp on every run (translator/glue2lean.py, helpers2lean.py) and proved equal to the hand-written one (Bridge/VecGlueBridge.lean, VecHelpersBridge.lean) + three-way correspondence impl / slot-level Lean model / std::vector on random histories incl. aliasing arguments and single-pass ranges',
         'Hand-written and tied by correspondence only: the slot-level primitives (object lifetime, memmove, allocator, exceptions as a fuel counter), swap2 between different types, single-pass ranges, pools of amc::vector / FixedCapacityVector; multi-element insertion in the middle under exceptions is known finding V9. 64-bit size_type: word-level step theorems under capacity < 2^62. ' + TB),
 'C03': ('proof', 'Lean theorems on the FlatSet list model for every strict weak order (sortedness invariant of every mutator, insert inserts iff no equivalent element, lookups by equivalence, bulk = one-by-one insertion, hinted = plain insertion, binary search = specification lower bound), transferred (Props/C03b.lean) to insert / emplace / find / erase(key) / lower_bound as REGENERATED from flatset.hpp on every run by translator/flatset2lean.py and proved equal to the model in Bridge/FlatSetBridge.lean (incl. never dereferencing outside [begin,end)) + correspondence impl / model / std::set over 4 comparators x 4 underlying vectors',
         'Generated from the source (Props/C03b, C03c): insert, insert(hint), emplace(_hint), find, contains, count, equal_range, lower/upper_bound, erase (key / position / range), clear, swap, comparisons, extract and node insertion, the bulk paths (which algorithm and which comparator object are pinned; stable_sort / inplace_merge / unique themselves are named specification functions), both merge overloads, constructors. Hand-written and tied by correspondence only: std::lower_bound itself (libstdc++ loop) and the std algorithms; heterogeneous lookups and cross-comparator merge not exercised yet. ' + TB),
 'C04': ('proof', 'Lean theorems on the SmallSet {inline vector, backing set} model for every strict weak order (state invariant kept by insert/erase/grow, insert and find answer by membership up to equivalence in either state and across grow) + correspondence impl / model / std::set with grow-drain-refill histories, both backing sets',
         'The SmallSet logic is regenerated from smallset.hpp on every run and proved equal to the model (Props/C04b, C04c: insert, emplace, find, erase, grow, merge, range insertion, swap, extract, node insertion, comparisons); std::set is modelled as a sorted duplicate-free list. ' + TB),
 'C05': ('proof', 'Lean theorem: every history confined to N keeps an inline SmallVector inline with capacity N and emits no effect (over generated words); move/swap between inline vectors; FixedCapacityVector base members have no allocator effect and a constant begin(); + confined-history correspondence with allocator ledger',
         'SmallSet clause: decided by a counting allocator on histories whose key domain has exactly N keys (correspondence only). Global operator new is not instrumented (allocator ledger only). ' + TB),
 'C07': ('proof', 'Lean theorems (bounds, capacity monotone along histories, reserve, no reallocation when the result fits, buffer hand-over on move/swap) over generated words + correspondence of capacity()/allocator calls/element event counts',
         'data() identity is observed through allocator-call counts and inline/heap state, not raw addresses. ' + TB),
 'C08': ('proof', 'Lean theorems: overflow_error iff needed > size_type max, raised before any word is written; out_of_range of the generated Check; no wrap-around (laws in unbounded arithmetic over definitions computed modulo 2^bits); container level (Props/C08b.lean): append / insert of a single-pass range that hits the limit (or whose element copy / allocation throws) leaves exactly the old elements, every growing operation throws with the container unchanged (StrongPost, Props/C09.lean) + near-limit histories with before/after comparison under ASan/UBSan',
         'Single-pass input ranges have no length known in advance: capacity may grow before the limit is met (contents are restored). Signed size types by correspondence only. ' + TB),
 'C11': ('proof', 'Lean theorems on the SmallSet model: erase(position) yields the sequence without that element in either state incl. the fall-back to inline, returned position is end() iff nothing follows, iteration sequence has no duplicates, the erase-while-iterating loop terminates in size() trips leaving exactly the unselected elements + iterator histories on the real sets (variant iterators and raw-pointer iterators)',
         'Iterators are indices in the model; real iterator equality/dereference is observed by the harness. ' + TB),
 'C12': ('proof', 'Lean theorem: for every strict weak order, sorted content, hint in [begin,end] and value, the nine-exit insert_hint model equals plain insertion (list and designated index); the same for insert(hint, const T&), insert(hint, T&&) and emplace_hint as REGENERATED from flatset.hpp on every run (translator/flatset2lean.py, equality with the model proved in Bridge/FlatSetBridge.lean; Props/C12b.lean), incl. that no iterator outside [begin,end] is dereferenced + complete enumeration of subsets x hints x values on the real FlatSet against plain insert, std::set and the model (incl. comparator-call counts)',
         'The generated functions are read as generic in the element type and comparator although FlatSet<int, std::less<int>> is what is instantiated for the AST; std::lower_bound inside the search-before-hint exit is the hand-written libstdc++ loop. ' + TB),
 'C18': ('proof', 'Lean theorem over the generated SafeNextCapacity: n <= 2*2^k pushes perform <= 2k+2 allocator requests from any state; reserve allocates once; shrink_to_fit target; O(n) relocations (Props/C18b.lean): n pushes from any state relocate at most 3*(size+n) elements in total (sharp, attained), none while the capacity suffices, none after a sufficient reserve + allocator-call and relocation counting on real runs',
         'Push-only runs and reserve-then-push runs; bulk appends and mixed histories are measured on runs only. 64-bit size_type: capacity < 2^62. ' + TB),
 'C19': ('proof', 'Lean theorems: libstdc++ lower_bound/upper_bound halving loops use <= k comparator calls below 2^k elements and compute the specification lower bound; find/insert/erase <= k+1; correct hint <= 4 calls; inline SmallSet scan <= 2N; the same bounds for the lookups, key-based mutators and hinted insertions REGENERATED from flatset.hpp on every run (Props/C19b.lean via Bridge/FlatSetBridge.lean) + real comparator-call counts for all n <= 64 and every rank, diffed exactly against the model',
         'std::lower_bound is modelled (libstdc++ 12 loop), validated by exact count comparison; std::set-backed large SmallSet counts are not modelled. ' + TB),
}
def main():
    props = [json.loads(l) for l in open(os.path.join(ROOT, 'properties.jsonl'))]
    old = json.load(open(os.path.join(ROOT, 'MANIFEST.json')))
    extra = {}
    ep = os.path.join(ROOT, 'tools', 'manifest_extra.json')
    if os.path.exists(ep):
        extra = json.load(open(ep))
    table = dict(P); table.update({k: tuple(v) for k, v in extra.items()})
    checks = []
    for p in props:
        pid = p['id']
        if pid not in table:
            continue
        cat, text, note = table[pid]
        checks.append({'property_id': pid, 'quick_cmd': f'python3 tools/check.py --property {pid} --tier quick',
                       'thorough_cmd': f'python3 tools/check.py --property {pid} --tier thorough',
                       'evidence_file': f'/verif/evidence/{pid}.json',
                       'replay_cmd_template': f'python3 tools/check.py --property {pid} --replay {{path}}',
                       'engine': 'lean4+correspondence',
                       'level_claimed': {'category': cat, 'text': text, 'design_ref': 'DESIGN.md section 6, ' + pid},
                       'level_note': note, 'technique': TECH})
    old['checks'] = checks
    old['engines'] = [{'name': 'lean4+correspondence', 'path': 'tools/check.py', 'serves_properties': [c['property_id'] for c in checks],
                       'kind_free_text': 'Lean 4 proofs over a model regenerated from /repo by translator/amc2lean.py (Gen/ + Bridge/), tied additionally by differential harnesses (harness/*.cpp vs lean/Driver)'}]
    old['not_applicable'] = [{'property_id': p['id'], 'reason': 'check under construction in this round (see DESIGN.md section 6); not claimed until its proof and correspondence exist'}
                             for p in props if p['id'] not in table]
    old['notes'] = 'checks are added as they are built; see DESIGN.md'
    json.dump(old, open(os.path.join(ROOT, 'MANIFEST.json'), 'w'), indent=1)
    print('checks:', [c['property_id'] for c in checks])
main()
