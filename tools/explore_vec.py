#!/usr/bin/env python3
"""development aid: random histories over a few configurations, model vs implementation vs std::vector"""
import sys, os, random
sys.path.insert(0, os.path.dirname(__file__))
from vlib import common as C, vec as V

def main():
    nscripts = int(sys.argv[1]) if len(sys.argv) > 1 else 50
    cfgs = [V.VecCfg('small', 4, 'U8', 'ntr'), V.VecCfg('small', 3, 'U32', 'tr'), V.VecCfg('std', 0, 'U32', 'ntr', alloc=1),
            V.VecCfg('fixed', 6, 'U8', 'ntr'), V.VecCfg('small', 5, 'U16', 'tc'), V.VecCfg('std', 0, 'U64', 'tc')]
    if len(sys.argv) > 2:
        cfgs = [c for c in cfgs if sys.argv[2] in c.name()]
    ok, log = C.lake_build(['amcdriver'])
    if not ok:
        print(log[-3000:]); return
    bins, errs = V.build(cfgs)
    for e in errs: print('BUILD ERROR', e[0], e[1][-1500:])
    rng = random.Random(C.seed())
    stats = {}
    for c in cfgs:
        if c.name() not in bins: continue
        shown = 0
        kinds = {}
        for k in range(nscripts):
            lines = V.gen_history(rng, c, 40)
            r = V.run_script(bins[c.name()], c.cfgline(), lines)
            d = V.first_diff(r)
            bad = [l for l in r.impl if 'MISMATCH' in l or 'faults=-' not in l]
            if r.impl_rc != 0:
                kinds['crash'] = kinds.get('crash', 0) + 1
                if shown < 2:
                    shown += 1; print('== CRASH', c.name(), r.impl_rc, r.impl_err[-800:]); print('\n'.join(lines[:len(r.impl)+1][-6:]))
            elif d is not None:
                op = lines[d].split()[0] if d < len(lines) else '?'
                kinds['diff:' + op] = kinds.get('diff:' + op, 0) + 1
                if shown < 3:
                    shown += 1
                    print('== DIFF', c.name(), 'at', d, lines[d] if d < len(lines) else '')
                    if d > 0: print('  prev :', r.impl[d-1])
                    print('  impl :', r.impl[d] if d < len(r.impl) else None); print('  model:', r.model[d] if d < len(r.model) else None)
            elif bad:
                i = int(bad[0].split()[0])
                kinds['oracle:' + lines[i].split()[0]] = kinds.get('oracle:' + lines[i].split()[0], 0) + 1
                if shown < 3:
                    shown += 1; print('== ORACLE', c.name(), lines[i], '\n  ', bad[0])
        print(c.name(), kinds)
main()
