"""C07 — capacity contract and address stability"""
from vlib import veccheck as VC, vec as V
from props import vcommon

PROPERTY = 'C07'
LEVEL = 'proof'

RESET_OPS = {'shr', 'mov', 'mct', 'swp', 'cct', 'new'}

def capacity_pred(cfg, lines, obs):
    out = []
    prev = None
    for o in obs:
        if o.idx >= len(lines):
            break
        t = lines[o.idx].split()
        op = t[0]
        touched = set()
        if op in RESET_OPS and len(t) > 1:
            touched = {int(x) for x in t[1:3] if x.isdigit()} if op != 'shr' else {int(t[1])}
        for k, c in enumerate(o.conts):
            if not isinstance(c, tuple):
                continue
            sz, cap, inl, _ = c
            if not (sz <= cap <= cfg.kmax()):
                out.append((o.idx, f'container {k}: size {sz} capacity {cap} max_size {cfg.kmax()}'))
            # ... and against what max_size() itself reports
            if o.maxsz is not None and k < len(o.maxsz) and not (cap <= o.maxsz[k]):
                out.append((o.idx, f'container {k}: capacity() {cap} > max_size() {o.maxsz[k]}'))
            if prev is not None and op != 'new' and isinstance(prev[k], tuple):
                pcap = prev[k][1]
                if cap < pcap and k not in touched:
                    out.append((o.idx, f'container {k}: capacity decreased {pcap} -> {cap} on {op}'))
        if op == 'rsv' and o.res == 'ok':
            c = o.conts[int(t[1])]
            want = int(t[2]) % (cfg.kmax() + 1)
            if isinstance(c, tuple) and c[1] < want:
                out.append((o.idx, f'reserve({want}) left capacity {c[1]}'))
        # an operation whose result fits the previous capacity does not reallocate
        if prev is not None and op not in RESET_OPS and op not in ('cpy',) and o.res == 'ok' and len(t) > 1 and t[1].isdigit():
            k = int(t[1])
            if isinstance(o.conts[k], tuple) and isinstance(prev[k], tuple):
                if o.conts[k][0] <= prev[k][1] and op != 'rsv' and o.al != (0, 0, 0):
                    out.append((o.idx, f'{op}: result size {o.conts[k][0]} fits capacity {prev[k][1]} but allocator was called {o.al}'))
        # stealing: move from / swap of heap-backed vectors performs no element construction or assignment
        if prev is not None and op in ('mov', 'mct') and o.ev is not None and cfg.cat != 'tc':
            d = int(t[2]); k = int(t[1])
            if k != d and isinstance(prev[d], tuple) and prev[d][2] == 0 and prev[d][1] > 0:
                if any(o.ev[i] for i in (0, 1, 2, 3)):
                    out.append((o.idx, f'{op} from a heap-backed vector performed element operations ev={o.ev}'))
                if isinstance(o.conts[k], tuple) and o.conts[k][1] != prev[d][1]:
                    out.append((o.idx, f'{op} from a heap-backed vector: capacity {o.conts[k][1]} != source capacity {prev[d][1]}'))
        if prev is not None and op == 'swp' and o.ev is not None and cfg.cat != 'tc':
            k, d = int(t[1]), int(t[2])
            if k != d and all(isinstance(prev[x], tuple) and prev[x][2] == 0 and prev[x][1] > 0 for x in (k, d)):
                if any(o.ev):
                    out.append((o.idx, f'swap of two heap-backed vectors performed element operations ev={o.ev}'))
        prev = o.conts
    return out

def run(ctx):
    ok = ctx.lean(['AmcVerif.Props.C07', 'AmcVerif.Props.C07b'], extra_modules=['AmcVerif.Bridge.VecGlueBridge', 'AmcVerif.Bridge.VecHelpersBridge'])
    n = 60 if ctx.tier == 'quick' else 400
    if not ok:
        n *= 3
    ctx.coverage['rule'] = ('random histories; after every step: size<=capacity<=max_size, capacity monotone unless shrink_to_fit/move/swap, '
                            'reserve honoured, no allocator call when the result fits, heap buffers handed over on move/swap with zero '
                            'element operations; capacities and allocator call counts are also diffed against the Lean model; '
                            'non-trivial = history contains a move or swap involving a heap-backed vector')
    def nontrivial(cfg, lines, obs):
        return any(l.split()[0] in ('mov', 'mct', 'swp') for l in lines) and any(o.blocks > 0 for o in obs)
    ga, gn = vcommon.history_gen(40, allow_alias=True), vcommon.history_gen(40, allow_alias=False)
    # every other history passes value arguments that refer to elements of the vector itself (push_back(v[i]), resize(n, v[i]) …):
    # the capacity contract does not depend on where the value lives
    VC.run(ctx, vcommon.cfgs(ctx.tier), lambda rng, cfg, k: (ga if k % 2 else gn)(rng, cfg, k), n, preds=(capacity_pred, VC.fault_pred),
           nontrivial=nontrivial, label='C07 history')

def replay(ctx, path):
    return VC.replay_file(path, preds=(capacity_pred, VC.fault_pred))
