"""C14 — containers honour their own trivially_relocatable declaration"""
from vlib import veccheck as VC, vec as V, setcheck as SC, sets as S

PROPERTY = 'C14'
LEVEL = 'proof'

def with_reloc(lines, rng, pool, p=0.3):
    out = []
    for l in lines:
        out.append(l)
        if l != 'new' and rng.random() < p:
            out.append(f'reloc {rng.randrange(pool)}')
    return out

def run(ctx):
    ok = ctx.lean(['AmcVerif.Props.C14'], extra_modules=['AmcVerif.Bridge.TraitsBridge', 'AmcVerif.Bridge.SmallSetBridge'])
    n = 50 if ctx.tier == 'quick' else 400
    if not ok:
        n *= 3
    vcfgs = [V.VecCfg('small', 4, 'U8', 'tr'), V.VecCfg('small', 3, 'U32', 'tc'), V.VecCfg('std', 0, 'U32', 'ntr', alloc=1),
             V.VecCfg('fixed', 6, 'U8', 'tr'), V.VecCfg('std', 0, 'U64', 'tc'), V.VecCfg('small', 2, 'U64', 'ntr', alloc=1),
             V.VecCfg('fixed', 5, 'U16', 'tc')]
    def vgen(rng, cfg, k):
        return with_reloc(V.gen_history(rng, cfg, 35), rng, cfg.pool)
    def nontrivial(cfg, lines, obs):
        # a relocation happened while some container was inline and non-empty, and one while heap-backed
        inl = heap = False
        for o in obs:
            if o.idx < len(lines) and lines[o.idx].startswith('reloc') and o.res == 'ok':
                c = o.conts[int(lines[o.idx].split()[1])]
                if isinstance(c, tuple) and c[0] > 0:
                    inl = inl or c[2] == 1
                    heap = heap or c[2] == 0
        return inl or heap
    ctx.coverage['rule'] = ('random histories in which, after ~30% of the operations, a container is moved to another address by memcpy with '
                            'the source bytes overwritten and abandoned (only types whose trivially_relocatable trait is true at compile time; '
                            'the expected trait value = conjunction of the parts is what the model uses, so a wrong claim is a difference); the '
                            'history then continues on the copy (inline partial/full, heap, empty, after move/swap) and is drained, under ASan, '
                            'compared with the Lean model and std::vector / std::set; non-trivial = a non-empty container was relocated')
    VC.run(ctx, vcfgs, vgen, n, preds=(VC.oracle_pred, VC.fault_pred), nontrivial=nontrivial, label='C14 vector relocation history')
    scfgs = [S.SetCfg('flat', cmp='less'), S.SetCfg('flat', cmp='mod', uvec='small'), S.SetCfg('flat', cmp='greater', uvec='std'),
             S.SetCfg('flat', cmp='stateful', uvec='fixed'), S.SetCfg('small', 3, 'flat', cmp='less'), S.SetCfg('small', 2, 'std', cmp='less'),
             S.SetCfg('small', 2, 'flat', cmp='mod'),
             # a comparator object that is not trivially relocatable: neither set type may claim the trait
             S.SetCfg('flat', cmp='selfref'), S.SetCfg('small', 3, 'flat', cmp='selfref')]
    def sgen(rng, cfg, k):
        return with_reloc(S.gen_history(rng, cfg, 35, dom=cfg.n + 6), rng, cfg.pool)
    SC.run(ctx, scfgs, sgen, n // 2, use_cmps=False, nontrivial=lambda c, l, o: any(x.startswith('reloc') for x in l), label='C14 set relocation history')
    ctx.assume('a future self-pointer is a fact about object bytes: the theorem covers the modelled state (no member stores an inline address in '
               'the pointer word; begin() is recomputed from the words), the memcpy runs cover the real bytes on sampled histories')

def replay(ctx, path):
    txt = open(path).read()
    if 'kind=set' in txt:
        return SC.replay_file(path, use_cmps=False)
    return VC.replay_file(path, preds=(VC.oracle_pred, VC.fault_pred))
