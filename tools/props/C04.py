"""C04 — SmallSet is observationally a std::set across its inline/large transition"""
from vlib import setcheck as SC, sets as S
from props import scommon
PROPERTY = 'C04'
LEVEL = 'proof'

def gen(rng, cfg, k):
    # small key domain relative to N so that histories grow, drain back to empty and refill
    dom = rng.choice([cfg.n + 2, 2 * cfg.n + 3, 12])
    return S.gen_history(rng, cfg, 45, dom=dom, bulk_max=cfg.n + 3)

def run(ctx):
    ok = ctx.lean(['AmcVerif.Props.C04'])
    n = 60 if ctx.tier == 'quick' else 400
    if not ok:
        n *= 3
    ctx.coverage['rule'] = ('random histories over a pool of 3 SmallSets with key domains a little larger than N, so that sets grow beyond N, '
                            'drain back to empty and refill; merges between inline and large sets; comparisons of inline with large sets; '
                            'both backing sets (std::set, FlatSet); impl / Lean model / std::set; non-trivial = some set was large and '
                            'later inline again within the history')
    def nontrivial(cfg, lines, obs):
        big = False
        for o in obs:
            for c in o.conts:
                if c[0] > cfg.n:
                    big = True
                elif big and c[0] == 0:
                    return True
        return False
    SC.run(ctx, scommon.small_cfgs(ctx.tier), gen, n, use_cmps=False, nontrivial=nontrivial, label='C04 history')
    ctx.assume('merge between SmallSets of different N / comparator / backing set type is not exercised by the harness yet')

def replay(ctx, path):
    return SC.replay_file(path, use_cmps=False)
