"""C04 — SmallSet is observationally a std::set across its inline/large transition"""
from vlib import setcheck as SC, sets as S
from props import scommon
PROPERTY = 'C04'
LEVEL = 'proof'

def gen(rng, cfg, k):
    # small key domain relative to N so that histories grow, drain back to empty and refill
    dom = rng.choice([cfg.n + 2, 2 * cfg.n + 3, 12])
    return S.gen_history(rng, cfg, 45, dom=dom, bulk_max=cfg.n + 3)

def gen_states(rng, cfg, k):
    """directed: bring two or three sets into chosen states (inline / large / large but drained to <= N elements) with chosen overlaps,
    then compare, merge, transfer, copy, move and swap across the states"""
    N = cfg.n
    dom = 2 * N + 4
    lines = []
    content = []
    for c in range(cfg.pool):
        st = rng.choice(['inline', 'large', 'drained', 'drained'])
        ks = rng.sample(range(dom), rng.randrange(0, N + 1) if st != 'large' else rng.randrange(N + 1, min(dom, 2 * N + 2) + 1))
        if c > 0 and rng.random() < 0.6:
            # same content as, a subset of, or overlapping with the previous set
            prev = content[c - 1]
            mode = rng.choice(['same', 'subset', 'overlap'])
            if mode == 'same' and len(prev) <= N: ks = list(prev)
            elif mode == 'subset' and prev: ks = rng.sample(prev, rng.randrange(0, min(len(prev), N) + 1))
            elif prev: ks = list(set(ks[: max(1, len(ks) // 2)] + rng.sample(prev, min(len(prev), 2))))[: N if st != 'large' else None]
        if st == 'drained':
            extra = [x for x in range(dom) if x not in ks][: N + 1 - len(ks) + rng.randrange(0, 2)] if len(ks) <= N else []
            order = ks + extra
            rng.shuffle(order)
            for x in order: lines.append(f'ins {c} {x}')
            for x in extra: lines.append(f'era {c} {x}')
        else:
            order = list(ks); rng.shuffle(order)
            for x in order: lines.append(f'ins {c} {x}')
        content.append(list(ks))
    P = cfg.pool
    for _ in range(12):
        a = rng.randrange(P); b = rng.randrange(P)
        op = rng.choice(['cmp', 'cmp', 'cmp', 'mrg', 'mrg', 'xfer', 'cpy', 'mov', 'swp', 'iter', 'eloop', 'ins', 'era', 'erap', 'find'])
        if op in ('cmp', 'mrg', 'cpy', 'mov', 'swp'): lines.append(f'{op} {a} {b}')
        elif op == 'xfer': lines.append(f'xfer {a} {b} {rng.randrange(dom)}')
        elif op == 'iter': lines.append(f'iter {a}')
        elif op == 'eloop': lines.append(f'eloop {a} {rng.randrange(1, 4)}')
        elif op == 'erap': lines.append(f'erap {a} {rng.randrange(0, 64)}')
        else: lines.append(f'{op} {a} {rng.randrange(dom)}')
    lines.append('new')
    if cfg.cmp == 'mix':
        # comparator objects in different states (v % 7, v % 10, v % 13): spread the keys so that the orders really differ
        def remap(l):
            t = l.split()
            if t[0] in ('ins', 'era', 'find') and len(t) == 3: t[2] = str(int(t[2]) * 3 + 5)
            elif t[0] == 'xfer' and len(t) == 4: t[3] = str(int(t[3]) * 3 + 5)
            return ' '.join(t)
        lines = [remap(l) for l in lines]
    return lines

def run(ctx):
    ok = ctx.lean(['AmcVerif.Props.C04', 'AmcVerif.Props.C04b', 'AmcVerif.Props.C04c', 'AmcVerif.Props.C04d', 'AmcVerif.Props.C04e', 'AmcVerif.Props.C04f', 'AmcVerif.Props.C04g', 'AmcVerif.Props.C04h'], extra_modules=['AmcVerif.Bridge.SmallSetBridge', 'AmcVerif.Bridge.SmallSetHetBridge'])
    n = 60 if ctx.tier == 'quick' else 400
    if not ok:
        n *= 3
    ctx.coverage['rule'] = ('random histories over a pool of 3 SmallSets with key domains a little larger than N, so that sets grow beyond N, '
                            'drain back to empty and refill; merges between inline and large sets; comparisons of inline with large sets; '
                            'both backing sets (std::set, FlatSet); impl / Lean model / std::set; non-trivial = some set was large and '
                            'later inline again within the history')
    def nontrivial(cfg, lines, obs):
        big = False
        for o in obs:
            for c in o.conts:
                if c[0] > cfg.n:
                    big = True
                elif big and c[0] == 0:
                    return True
        return False
    SC.run(ctx, scommon.small_cfgs(ctx.tier), gen, n, use_cmps=False, nontrivial=nontrivial, label='C04 history')
    SC.run(ctx, scommon.small_cfgs(ctx.tier), gen_states, n, use_cmps=False,
           nontrivial=lambda cfg, lines, obs: any(l.startswith('cmp') or l.startswith('mrg') for l in lines), label='C04 directed states')

def replay(ctx, path):
    return SC.replay_file(path, use_cmps=False)
