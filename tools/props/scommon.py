from vlib import sets as S

def flat_cfgs(tier):
    c = [S.SetCfg('flat', cmp='less'), S.SetCfg('flat', cmp='mod', uvec='small'), S.SetCfg('flat', cmp='stateful', uvec='fixed', cat='ntr'),
         S.SetCfg('flat', cmp='greater', uvec='std'), S.SetCfg('flat', cmp='mix'),
         S.SetCfg('flat', cmp='transp', uvec='std')]
    if tier == 'thorough':
        c += [S.SetCfg('flat', cmp='stateful', uvec='amc'), S.SetCfg('flat', cmp='mod', uvec='std', cat='ntr'),
              S.SetCfg('flat', cmp='less', uvec='small', n=8, cat='ntr'), S.SetCfg('flat', cmp='greater', uvec='fixed'),
              S.SetCfg('flat', cmp='mix', uvec='std', cat='ntr'), S.SetCfg('flat', cmp='transp', uvec='small', cat='ntr')]
    return c

def small_cfgs(tier):
    c = [S.SetCfg('small', 3, 'std', cmp='less'), S.SetCfg('small', 2, 'flat', cmp='mod'), S.SetCfg('small', 4, 'std', cmp='greater', cat='ntr'),
         S.SetCfg('small', 1, 'flat', cmp='stateful'), S.SetCfg('small', 2, 'std', cmp='stateful'), S.SetCfg('small', 2, 'flat', cmp='mix'),
         S.SetCfg('small', 5, 'flat', cmp='transp')]
    if tier == 'thorough':
        c += [S.SetCfg('small', 4, 'flat', cmp='stateful'), S.SetCfg('small', 5, 'flat', cmp='less', cat='ntr'),
              S.SetCfg('small', 3, 'flat', cmp='greater'), S.SetCfg('small', 1, 'std', cmp='mod'), S.SetCfg('small', 3, 'std', cmp='mix'), S.SetCfg('small', 6, 'std', cmp='transp')]
    return c
