"""C18 — growth is geometric: appending n elements costs O(log n) reallocations"""
import math
from vlib import veccheck as VC, vec as V

PROPERTY = 'C18'
LEVEL = 'proof'

def growth_pred(cfg, lines, obs):
    out = []
    # count allocator requests during each maximal run of push/emb on container 0
    run_n = 0; run_allocs = 0; moves = 0; prev_size = 0
    for o in obs:
        if o.idx >= len(lines):
            break
        t = lines[o.idx].split()
        if t[0] in ('push', 'emb', 'pushm') and o.res == 'ok':
            run_n += 1
            run_allocs += o.al[0] + o.al[2]
            if o.ev is not None:
                moves += o.ev[1]
            if isinstance(o.conts[0], tuple):
                prev_size = o.conts[0][0]
        else:
            if run_n >= 2:
                bound = 2 * math.ceil(math.log2(run_n)) + 4
                if run_allocs > bound:
                    out.append((o.idx, f'{run_n} appends performed {run_allocs} reallocations (bound {bound})'))
                fin = prev_size
                if cfg.cat == 'ntr' and moves - run_n - run_allocs > 3 * fin + 8:
                    out.append((o.idx, f'{run_n} appends up to size {fin} performed {moves - run_n - run_allocs} relocating element moves (bound {3 * fin + 8})'))
            run_n = 0; run_allocs = 0; moves = 0
        if t[0] == 'rsv' and o.res == 'ok':
            if o.al[0] + o.al[2] > 1:
                out.append((o.idx, f'reserve performed {o.al[0] + o.al[2]} allocations'))
        if t[0] == 'shr' and o.res == 'ok':
            c = o.conts[int(t[1])]
            if isinstance(c, tuple):
                want = cfg.n if (cfg.fl != 'std' and c[0] <= cfg.n) else c[0]
                if c[1] != want:
                    out.append((o.idx, f'shrink_to_fit left capacity {c[1]} for size {c[0]} (expected {want})'))
    return out

def gen_growth(rng, cfg, k):
    lines = []
    start = rng.choice(['empty', 'inline', 'reserved', 'shrunk'])
    if start == 'inline' and cfg.n:
        lines.append('apr 0 ' + ','.join('7' for _ in range(rng.randrange(1, cfg.n + 1))))
    elif start == 'reserved':
        lines.append(f'rsv 0 {rng.randrange(1, 40)}')
    elif start == 'shrunk':
        lines.append('apr 0 ' + ','.join('7' for _ in range(rng.randrange(1, 30))))
        lines.append('shr 0')
    n = rng.choice([10, 50, 200, 700]) if cfg.kmax() > 1000 else rng.choice([10, 50, 200])
    op = rng.choice(['push', 'emb', 'pushm'])
    lines += [f'{op} 0 {i % 97 + 1}' for i in range(n)]
    lines.append('shr 0')
    lines.append(f'rsv 0 {rng.randrange(1, 250)}')
    lines.append('new')
    return lines

def run(ctx):
    ok = ctx.lean(['AmcVerif.Props.C18', 'AmcVerif.Props.C18b'])
    n = 12 if ctx.tier == 'quick' else 80
    if not ok:
        n *= 3
    cfgs = [V.VecCfg('small', 3, 'U32', 'tr'), V.VecCfg('std', 0, 'U32', 'ntr', alloc=1), V.VecCfg('small', 5, 'U16', 'tc'),
            V.VecCfg('std', 0, 'U64', 'tc'), V.VecCfg('small', 4, 'U8', 'ntr')]
    ctx.coverage['rule'] = ('n appends (n in 10..700) one by one from the start states {empty, inline, after reserve, after shrink_to_fit}; '
                            'allocator requests counted per run and compared with 2*ceil(log2 n)+4, element moves with 3n+8; reserve '
                            'single allocation; shrink_to_fit target capacity; capacities and allocator calls also diffed against the '
                            'Lean model; non-trivial = the run reallocated at least 3 times')
    def nontrivial(cfg, lines, obs):
        return sum(o.al[0] + o.al[2] for o in obs) >= 3
    VC.run(ctx, cfgs, gen_growth, n, preds=(growth_pred, VC.fault_pred), nontrivial=nontrivial, label='C18 growth run')

def replay(ctx, path):
    return VC.replay_file(path, preds=(growth_pred, VC.fault_pred))
