"""C11 — SmallSet iteration and iterator contract holds in and across both states"""
from vlib import setcheck as SC, sets as S
from props import scommon
PROPERTY = 'C11'
LEVEL = 'proof'

def gen(rng, cfg, k):
    dom = rng.choice([cfg.n + 2, 2 * cfg.n + 3])
    keep = {'ins', 'insm', 'emp', 'insh', 'emph', 'insr', 'era', 'erap', 'erar', 'find', 'iter', 'eloop', 'extp', 'xfer', 'clr', 'mov', 'swp'}
    lines = S.gen_history(rng, cfg, 45, dom=dom, bulk_max=cfg.n + 3, ops_filter=lambda op: op in keep)
    # node transfers: the iterator returned by insert(node) designates the inserted element or the one that prevented the insertion;
    # a small key domain makes both outcomes frequent
    return lines

def run(ctx):
    ok = ctx.lean(['AmcVerif.Props.C11', 'AmcVerif.Props.C11b', 'AmcVerif.Props.C11c', 'AmcVerif.Props.C11d'], extra_modules=['AmcVerif.Bridge.SmallSetBridge', 'AmcVerif.Bridge.FlatSetBridge'])
    n = 80 if ctx.tier == 'quick' else 500
    if not ok:
        n *= 3
    ctx.coverage['rule'] = ('histories of iterator-taking / iterator-returning operations on SmallSets around the N boundary: after each, the '
                            'harness compares returned iterators with end(), dereferences them (incl. the position returned by insert(node) for inserted and refused nodes), walks begin()->end() and rbegin()->rend(), '
                            'and runs the erase-while-iterating loop with a trip limit; non-trivial = an erase(position) or an erase loop '
                            'removed the last element of a large set')
    def nontrivial(cfg, lines, obs):
        prev = None
        for o in obs:
            if o.idx < len(lines) and lines[o.idx].split()[0] in ('erap', 'eloop', 'erar') and prev is not None:
                c = int(lines[o.idx].split()[1])
                if prev.conts[c][0] > cfg.n and o.conts[c][0] == 0:
                    return True
                if prev.conts[c][0] > cfg.n and o.conts[c][0] < prev.conts[c][0] and o.conts[c][0] == 0:
                    return True
            prev = o
        return any(l.split()[0] == 'eloop' for l in lines)
    SC.run(ctx, scommon.small_cfgs(ctx.tier), gen, n, use_cmps=False, nontrivial=nontrivial, label='C11 iterator history')

def replay(ctx, path):
    return SC.replay_file(path, use_cmps=False)
