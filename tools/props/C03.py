"""C03 — FlatSet is observationally a std::set for every operation history"""
from vlib import setcheck as SC, sets as S
from props import scommon
PROPERTY = 'C03'
LEVEL = 'proof'

def run(ctx):
    ok = ctx.lean(['AmcVerif.Props.C03', 'AmcVerif.Props.C03b', 'AmcVerif.Props.C03c', 'AmcVerif.Props.C03d', 'AmcVerif.Props.C03e', 'AmcVerif.Props.C03f'], extra_modules=['AmcVerif.Bridge.FlatSetBridge', 'AmcVerif.Bridge.FlatSetHetBridge'])
    n = 60 if ctx.tier == 'quick' else 400
    if not ok:
        n *= 3
    ctx.coverage['rule'] = ('random histories (40 ops) over a pool of 3 FlatSets: insert (value, rvalue, hint, range incl. ranges longer than '
                            'the introsort threshold, node), emplace(_hint), erase (key/position/range), lookups, bounds, equal_range, merge, '
                            'extract, swap, copy, move, comparisons, construction/assignment from a vector, steal_vector; comparators '
                            '{less, greater, coarse mod 5, stateful mod m whose default state differs, mix = a different comparator state in every set of the pool}; underlying vectors {amc::vector, '
                            'SmallVector, FixedCapacityVector, std::vector}; three-way comparison impl / Lean model / std::set; '
                            'non-trivial = history contains a bulk path and a merge or node transfer')
    def nontrivial(cfg, lines, obs):
        ops = {l.split()[0] for l in lines}
        return bool(ops & {'insr', 'fromv', 'asgv', 'rngc'}) and bool(ops & {'mrg', 'xfer'})
    SC.run(ctx, scommon.flat_cfgs(ctx.tier), lambda rng, cfg, k: S.gen_history(rng, cfg, 40), n, nontrivial=nontrivial, label='C03 history')
    # a FixedCapacityVector underneath that is exactly as large as the key domain: every operation whose *result* fits must succeed
    # (merge, single insertions, node transfers never need more room than the union); the bulk paths, which append before they
    # deduplicate, are left out here
    tight = [S.SetCfg('flat', cmp='less', uvec='fixed', ucap=12, pool=3)]
    if ctx.tier == 'thorough':
        tight.append(S.SetCfg('flat', cmp='mod', uvec='fixed', ucap=5, pool=3))
    # (`mrgx` builds its source set, of another comparator type, over the same tight vector type: that set may not fit by itself)
    single = lambda op: op not in ('insr', 'insl', 'rngc', 'fromv', 'asgv', 'steal', 'mrgx')
    def gen_tight(rng, cfg, k):
        # every set of the pool starts well filled, so that |a| + |b| exceeds the capacity while the union still fits
        dom = 12 if cfg.cmp == 'less' else 40
        pre = []
        for c in range(cfg.pool):
            for x in rng.sample(range(dom), rng.randrange(dom // 2, dom - 1)):
                pre.append(f'ins {c} {x}')
        return pre + S.gen_history(rng, cfg, 40, dom=dom, ops_filter=single)
    SC.run(ctx, tight, gen_tight, n // 2,
           nontrivial=lambda cfg, lines, obs: any(l.startswith('mrg') for l in lines), label='C03 tight fixed capacity')
    ctx.assume('bulk paths are modelled at specification level (stable sort + stable merge + keep-first unique = one-by-one insertion)')

def replay(ctx, path):
    return SC.replay_file(path)
