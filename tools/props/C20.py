"""C20 — concurrent const access to one container is race-free.

Level `other` (partial): (1) a Lean theorem over an interleaving model whose hypothesis -- every const member has an
empty write footprint -- is discharged by `decide` over a table GENERATED from the current headers by
translator/footprints.py; (2) ThreadSanitizer runs of harness/tsan_readers.cpp."""
import json, os, random, re, subprocess, sys, time
from vlib import common as C

PROPERTY = 'C20'
LEVEL = 'other'
EXPLANATION = (
    "Proof side: AmcVerif/Props/C20.lean proves, over the interleaving model of Model/Race.lean (threads issue operations, an "
    "operation is a list of atomic reads/writes of locations, an interleaving is ANY merge of the threads' access sequences, a "
    "conflict is two accesses of different threads to one location with at least one write), that operations without writes never "
    "conflict for any number of threads and any schedule and that every read returns the value of the sequential state "
    "(C20_race_free, C20_sequential_results, by induction over the merge), and that threads which additionally mutate objects of "
    "their own (pairwise disjoint location sets) do not conflict either (C20_disjoint_writers, C20_readers_and_private_writers). "
    "The hypothesis 'no write' is tied to the code: translator/footprints.py recomputes on every run, from clang's typed AST of "
    "explicit instantiations of the current headers (int, a small struct, a std::string holder; C++17), the write footprint on "
    "non-local state of every const member function of every amc class and of every copy constructor with respect to its source "
    "(assignments, ++/--, placement new, memcpy destinations, non-const calls and non-const access handed to code outside amc, whose "
    "target is *this, memory reached through this or through a const parameter, a static local or a namespace-scope variable; "
    "const_cast / const-dropping casts of this-derived expressions; transitively through every amc function called, with a "
    "points-to analysis over abstract regions), plus the lists of mutable and non-const static data members; C20_footprints is a "
    "`decide` that every entry is empty, so a cache written in a const member breaks the proof, and the translator refuses what it "
    "cannot classify. Trusted: functions outside namespace amc (std:: algorithms, libc, element-type members, std::set/variant/"
    "optional) write only through non-const access they are handed (they are listed in the evidence), the footprint analysis itself "
    "(Python, flow-insensitive, one region per object) and clang 14's AST. Runtime side: harness/tsan_readers.cpp built with "
    "clang++-14 -O1 -g -fsanitize=thread runs 2-8 reader threads with seed-derived start offsets calling every const operation on ONE "
    "shared const object of each container type/state (vector, SmallVector inline and heap, FixedCapacityVector, FlatSet, SmallSet "
    "small and large, SmallSet over FlatSet, std::string elements) while writer threads mutate distinct objects and copy from the "
    "shared one; a TSan report, a reader checksum different from the sequential one, or a changed shared object is a violation. "
    "What cannot be exhibited: TSan sees only the schedules that happen to run, and the Lean model abstracts the C++ memory model "
    "to sequentially consistent atomic accesses per location; races inside libstdc++/malloc and compiler-introduced writes are "
    "outside the proof and only sampled by TSan.")

FOOTPRINTS = os.path.join(C.ROOT, 'translator', 'footprints.py')

# members the property statement names; the generated table must contain them (otherwise the instantiation TU lost coverage)
REQUIRED_MEMBERS = [
    'amc::FlatSet::find', 'amc::FlatSet::contains', 'amc::FlatSet::count', 'amc::FlatSet::lower_bound', 'amc::FlatSet::upper_bound',
    'amc::FlatSet::equal_range', 'amc::FlatSet::operator<', 'amc::FlatSet::operator==', 'amc::FlatSet::begin', 'amc::FlatSet::size',
    'amc::FlatSet::FlatSet', 'amc::SmallSet::find', 'amc::SmallSet::find_small', 'amc::SmallSet::contains', 'amc::SmallSet::count',
    'amc::SmallSet::operator<', 'amc::SmallSet::begin', 'amc::SmallSet::end', 'amc::SmallSet::size', 'amc::SmallSet::empty',
    'amc::SmallSet::SmallSet', 'amc::SmallSetIterator::operator*', 'amc::SmallSetIteratorCommon::get',
    'amc::vec::VectorImpl::operator[]', 'amc::vec::VectorImpl::at', 'amc::vec::VectorImpl::front', 'amc::vec::VectorImpl::back',
    'amc::vec::VectorImpl::operator==', 'amc::vec::VectorImpl::operator<', 'amc::vec::VectorImpl::end', 'amc::vec::VectorImpl::empty',
    'amc::vec::VectorImpl::data', 'amc::Vector::Vector', 'amc::vec::SmallVectorBase::begin', 'amc::vec::SmallVectorBase::size',
    'amc::vec::SmallVectorBase::capacity', 'amc::vec::StdVectorBase::begin', 'amc::vec::StdVectorBase::size',
    'amc::vec::StdVectorBase::capacity', 'amc::vec::StaticVectorBase::begin', 'amc::vec::StaticVectorBase::size',
    'amc::vec::StaticVectorBase::capacity', 'amc::vec::ElemWithPtrStorage::dyn', 'amc::vec::ElemWithPtrStorage::ptr',
    'amc::BasicAllocatorWrapper::max_size', 'amc::BasicAllocatorWrapper::operator==',
]


def run_footprints(write=True):
    """run the footprint translator on the tree under check. returns the status dict"""
    cmd = [sys.executable, FOOTPRINTS, '--repo', C.REPO, '--out', os.path.join(C.LEAN, 'AmcVerif', 'Gen')]
    if not write:
        cmd.append('--no-write')
    with C.Lock('lean'):
        p = C.sh(cmd)
    try:
        st = json.loads(p.stdout.strip().splitlines()[-1])
    except Exception:
        st = {'ok': False, 'error': 'footprint translator crashed: ' + (p.stderr or p.stdout)[-2000:]}
    return st


def group_writes(with_writes):
    """group the non-empty table entries by the root write (text before ' via ')"""
    roots = {}
    for member, ws in with_writes.items():
        for w in ws:
            root = w.split(' via ')[0]
            roots.setdefault(root, []).append((member, w))
    return roots


TSAN_ENV = 'exitcode=66 halt_on_error=0 report_thread_leaks=0 history_size=4'


def build_tsan():
    return C.build_harness('tsan_readers.cpp', [], std='c++17', opt='-O1', san=False, extra=['-fsanitize=thread', '-pthread'],
                           compiler='clang++-14', name='tsan_readers')


def run_tsan(binp, scenario, readers, writers, seed, iters, timeout=180):
    env = dict(os.environ)
    env['TSAN_OPTIONS'] = TSAN_ENV
    cmd = [binp, scenario, str(readers), str(writers), str(seed), str(iters)]
    t0 = time.time()
    try:
        p = subprocess.run(cmd, capture_output=True, text=True, env=env, timeout=timeout)
        rc, out, err = p.returncode, p.stdout, p.stderr
    except subprocess.TimeoutExpired as e:
        rc, out, err = -9, (e.stdout or b'').decode(errors='replace') if isinstance(e.stdout, bytes) else (e.stdout or ''), 'TIMEOUT'
    return rc, out, err, time.time() - t0, ' '.join(['tsan_readers'] + cmd[1:])


def first_report(err, limit=7000):
    i = err.find('WARNING: ThreadSanitizer')
    if i < 0:
        return err[-limit:]
    j = err.find('==================', i)
    rep = err[i:j if j > i else None]
    return rep[:limit]


def tsan_plan(tier, seed, widen):
    rng = random.Random(seed)
    plan = []
    if tier == 'quick':
        counts = [2, 3, 4, 6, 8, 5, 7, 8]
        for k, r in enumerate(counts):
            plan.append(('all', r, (k % 3) + (1 if k % 2 else 0), rng.randrange(1, 10 ** 6), 400))
        if widen:
            for _ in range(10):
                plan.append(('all', rng.randrange(2, 9), rng.randrange(0, 4), rng.randrange(1, 10 ** 6), 300))
    else:
        for k in range(30):
            plan.append(('all', 2 + k % 7, k % 4, rng.randrange(1, 10 ** 6), rng.choice([200, 800, 2000])))
        for sc in ('vector', 'smallvector_inline', 'smallvector_heap', 'fixedcapacityvector', 'flatset', 'smallset_small',
                   'smallset_large', 'smallset_flat_small', 'smallset_flat_large', 'flatset_string', 'smallset_string_large'):
            for r in (2, 8):
                plan.append((sc, r, 2, rng.randrange(1, 10 ** 6), 5000))
    return plan


def run(ctx):
    cov = ctx.coverage
    cov['explanation'] = EXPLANATION
    cov['rule'] = ('footprint table regenerated from the headers: every const member / copy-constructor source has no write to '
                   'non-local state; TSan: no report and reader checksums equal the sequential checksum')
    # ---- 1. footprints (tie T) ---------------------------------------------------------------------------------------
    t0 = time.time()
    st = run_footprints()
    cov['footprints_wall_s'] = round(time.time() - t0, 1)
    ok_t = bool(st.get('ok'))
    ctx.obligation('translate:footprints of const members -> lean/AmcVerif/Gen/Footprints.lean', ok_t, (st.get('error') or '')[:600])
    table_bad = False
    if not ok_t:
        ctx.violation('footprint translator refuses the current headers: ' + (st.get('error') or '?')[:200],
                      'translator/footprints.py could not classify the const members of the tree under check\n'
                      f'repo: {C.REPO}\nerror: {st.get("error")}\n'
                      f'reproduce: python3 translator/footprints.py --repo {C.REPO} --no-write\n', found_input=False)
    else:
        cov['const_members'] = st['const_members']
        cov['bodies_analysed'] = st['bodies_analysed']
        cov['copy_constructors'] = st['copy_constructors']
        cov['element_types'] = st['element_types']
        cov['classes_with_const_members'] = len(st['classes'])
        cov['trusted_external_functions'] = sorted(st['trusted_external'])
        cov['translator_notes'] = st.get('notes', [])[:12]
        cov['footprints_sha256'] = st['file']['sha256']
        ctx.assume('functions outside namespace amc (std:: algorithms on const iterators, libc, element-type members, std::set / '
                   'variant / optional members) write only through non-const access handed to them: ' + ', '.join(sorted(st['trusted_external'])[:70]))
        ctx.assume('the instantiations analysed (element types int, struct of int, struct of std::string; size types uint8/uint32; '
                   'C++17 arms of the #if ladders, so operator<=> and the defaulted iterator operator== of C++20 are not analysed) are '
                   'representative of the templates')
        ctx.assume('destructors of local objects and temporaries, default member initialisers and default arguments are not traversed '
                   '(they act on the local object); constructors of classes outside amc store but do not write through their arguments')
        text = open(st['file']['path']).read() if os.path.exists(st['file']['path']) else ''
        names = re.findall(r'^\s*\("((?:[^"\\]|\\.)*)",', text, re.M)
        missing = [m for m in REQUIRED_MEMBERS if not any(n.startswith(m + ' : ') for n in names)]
        ctx.obligation('footprints: the generated table contains the const members named by the property', not missing,
                       'missing: ' + ', '.join(missing[:8]))
        for want in ('amc::FlatSet::find : ', 'amc::SmallSet::operator< : ', 'amc::vec::SmallVectorBase::begin : '):
            for n in names:
                if n.startswith(want):
                    ctx.sample(f'footprint {n} -> {st["with_writes"].get(n, [])[:1]}')
                    break
        # ---- non-empty table: the failing "input" is the const member and the write found in it --------------------------
        roots = group_writes(st['with_writes'])
        table_bad = bool(roots) or bool(st['mutable_members']) or bool(st['static_mutable_members'])
        cov['members_with_writes'] = len(st['with_writes'])
        for root, hits in list(roots.items())[:3]:
            members = sorted({m for m, _ in hits})
            lines = [f'const member functions whose write footprint on non-local state is not empty ({len(members)}):']
            for m in members[:25]:
                lines.append(f'  {m}    (declared at {st["where"].get(m, "?")})')
            lines.append('write found: ' + root)
            lines.append('table entries (lean/AmcVerif/Gen/Footprints.lean):')
            for m, w in hits[:12]:
                lines.append(f'  ("{m}", ["{w}"])')
            lines.append(f'reproduce: python3 translator/footprints.py --repo {C.REPO} --no-write   (see "with_writes")')
            lines.append('consequence: two threads calling this const member on one object both perform this write -> data race; '
                         'theorem C20_footprints no longer holds')
            ctx.violation(f'const member writes shared state: {members[0].split(" : ")[0]}: {root}'[:300], '\n'.join(lines),
                          found_input=True, signature={'kind': 'footprint', 'root': root})
        extra = [('mutable data member', x) for x in st['mutable_members']] + [('non-const static data member', x) for x in st['static_mutable_members']]
        if extra and not roots:
            ctx.violation('class has ' + '; '.join(f'{k} {v}' for k, v in extra)[:250],
                          '\n'.join(f'{k}: {v}' for k, v in extra) + '\nno write to it was found in a const member, but C20_footprints requires '
                          'the lists mutableMembers / staticMutableMembers to be empty\n'
                          f'reproduce: python3 translator/footprints.py --repo {C.REPO} --no-write\n', found_input=True,
                          signature={'kind': 'mutable-member'})
        cov['mutable_members'] = st['mutable_members']
        cov['static_mutable_members'] = st['static_mutable_members']
    # ---- 2. theorems -------------------------------------------------------------------------------------------------------
    ok_lean = ctx.lean(['AmcVerif.Props.C20'], need_driver=False)
    cov['trusted_base'] = [x for x in cov.get('trusted_base', []) if 'amc2lean' not in x and 'Prim/' not in x] + \
        ['translator/footprints.py + clang 14 AST', 'functions outside namespace amc (see assumptions)',
         'clang 14 ThreadSanitizer runtime (runtime half)']
    # ---- 3. ThreadSanitizer ------------------------------------------------------------------------------------------------
    t0 = time.time()
    binp, log = build_tsan()
    cov['tsan_build_wall_s'] = round(time.time() - t0, 1)
    ctx.obligation('build:harness/tsan_readers.cpp (clang++-14 -O1 -g -fsanitize=thread)', binp is not None, (log or '')[-600:])
    if binp is None:
        ctx.violation('TSan harness does not build against the current headers', 'clang++-14 -std=c++17 -O1 -g -fsanitize=thread -pthread '
                      f'-I{C.INCLUDE} harness/tsan_readers.cpp\n' + (log or '')[-3500:], found_input=False)
        return
    plan = tsan_plan(ctx.tier, ctx.seed, widen=(table_bad or not ok_lean or not ok_t))
    budget = 35 if ctx.tier == 'quick' else 280
    t0 = time.time()
    reported = 0
    for (sc, readers, writers, seed, iters) in plan:
        if time.time() - t0 > budget:
            ctx.notes.append(f'TSan plan cut at {ctx.coverage.get("tsan_runs", 0)} runs (time budget {budget}s)')
            break
        rc, out, err, wall, cmd = run_tsan(binp, sc, readers, writers, seed, iters)
        ctx.count('tsan_runs')
        ctx.count('reader_threads_started', readers * max(1, out.count(' scenario=')))
        ctx.count('writer_threads_started', writers * max(1, out.count(' scenario=')))
        ctx.hist('readers_per_run', str(readers))
        for m in re.finditer(r'^(OK|FAIL) scenario=(\S+)', out, re.M):
            ctx.hist('scenario_runs', m.group(2))
        oks = [l for l in out.splitlines() if l.startswith('OK ')]
        if oks:
            ctx.sample(f'{cmd}: {oks[len(oks) // 2]}')
        races = err.count('WARNING: ThreadSanitizer')
        if races or rc == 66:
            ctx.count('tsan_reports', max(1, races))
            if reported < 2:
                reported += 1
                ctx.violation(f'ThreadSanitizer reports a data race among readers of one const container ({cmd})',
                              f'cmd: {cmd}\nTSAN_OPTIONS={TSAN_ENV}\nexit={rc} reports={races}\n--- stdout\n{out[-1500:]}\n--- first report\n'
                              + first_report(err), found_input=True, signature={'kind': 'tsan'})
        elif rc == 3 or 'MISMATCH' in out:
            ctx.count('checksum_mismatches')
            if reported < 2:
                reported += 1
                ctx.violation(f'reader checksum differs from the sequential result ({cmd})',
                              f'cmd: {cmd}\nexit={rc}\n--- stdout\n{out[-3000:]}\n--- stderr\n{err[-2000:]}', found_input=True,
                              signature={'kind': 'checksum'})
        elif rc != 0:
            ctx.count('abnormal_exits')
            if reported < 2:
                reported += 1
                ctx.violation(f'TSan harness terminated abnormally, exit {rc} ({cmd})',
                              f'cmd: {cmd}\nexit={rc}\n--- stdout\n{out[-2000:]}\n--- stderr\n{err[-4000:]}', found_input=True,
                              signature={'kind': 'crash'})
    cov['tsan_wall_s'] = round(time.time() - t0, 1)
    cov.setdefault('tsan_reports', 0)
    cov.setdefault('checksum_mismatches', 0)


def replay(ctx, path):
    """re-run what a replay file describes: a TSan command line, or a footprint table entry. 0 = no longer fails, 1 = still fails"""
    lines = [l.rstrip('\n') for l in open(path)]
    cmdl = [l for l in lines if l.startswith('cmd: tsan_readers ')]
    if cmdl:
        args = cmdl[0].split()[2:]
        binp, log = build_tsan()
        if binp is None:
            print('harness build failed:', (log or '')[-1500:]); return 1
        rc, out, err, wall, cmd = run_tsan(binp, *args)
        print(out[-3000:])
        if rc != 0 or 'WARNING: ThreadSanitizer' in err:
            print(first_report(err))
            print(f'REPLAY: still fails (exit {rc})')
            return 1
        # races are schedule dependent: try a few more times before declaring it gone
        for k in range(4):
            rc, out, err, wall, cmd = run_tsan(binp, args[0], args[1], args[2], str(int(args[3]) + k + 1), args[4])
            if rc != 0 or 'WARNING: ThreadSanitizer' in err:
                print(first_report(err)); print(f'REPLAY: still fails (exit {rc}, retry {k + 1})'); return 1
        print('REPLAY: no failure'); return 0
    st = run_footprints(write=False)
    if not st.get('ok'):
        print('footprint translator refuses:', st.get('error')); print('REPLAY: still fails'); return 1
    bad = st['with_writes'] or st['mutable_members'] or st['static_mutable_members']
    for m, ws in list(st['with_writes'].items())[:10]:
        print(m); [print('    ' + w) for w in ws[:4]]
    for x in st['mutable_members'] + st['static_mutable_members']:
        print('member:', x)
    print('REPLAY: still fails' if bad else 'REPLAY: no failure')
    return 1 if bad else 0
