"""C05 — inline-storage promise: no dynamic allocation within N"""
from vlib import veccheck as VC, vec as V, setcheck as SC, sets as S
from props import vcommon

PROPERTY = 'C05'
LEVEL = 'proof'

def inline_pred(cfg, lines, obs):
    """histories confined to N: every container stays inline with capacity N and no allocator call is made"""
    out = []
    for o in obs:
        if o.idx >= len(lines):
            continue
        if o.al != (0, 0, 0) or o.blocks != 0:
            out.append((o.idx, f'allocator request within the inline capacity: al={o.al} blocks={o.blocks}'))
        for k, c in enumerate(o.conts):
            if isinstance(c, tuple) and (c[2] != 1 or c[1] != cfg.n):
                out.append((o.idx, f'container {k}: capacity()={c[1]} inline={c[2]} (expected capacity {cfg.n}, inline)'))
        if o.res.startswith('exc:') and lines[o.idx].split()[0] != 'at':
            out.append((o.idx, 'operation within the inline capacity threw ' + o.res))
    return out

def noalloc_pred(cfg, lines, obs):
    return [(o.idx, f'SmallSet that never held more than N={cfg.n} elements made {o.allocs} allocator request(s)') for o in obs if o.allocs != 0][:1]

def run(ctx):
    ok = ctx.lean(['AmcVerif.Props.C05', 'AmcVerif.Props.C05b', 'AmcVerif.Props.C05c'], extra_modules=['AmcVerif.Bridge.VecGlueBridge', 'AmcVerif.Bridge.SmallSetBridge'])
    n = 80 if ctx.tier == 'quick' else 600
    if not ok:
        n *= 3
    cfgs = [V.VecCfg('small', 4, 'U8', 'ntr'), V.VecCfg('small', 3, 'U32', 'tr'), V.VecCfg('small', 5, 'U16', 'tc'),
            V.VecCfg('small', 2, 'U64', 'ntr', alloc=1), V.VecCfg('fixed', 6, 'U8', 'ntr'), V.VecCfg('fixed', 5, 'U16', 'tr')]
    if ctx.tier == 'thorough':
        cfgs += [V.VecCfg('small', 1, 'U8', 'tr'), V.VecCfg('small', 8, 'U16', 'ntr'), V.VecCfg('small', 7, 'U64', 'tr'),
                 V.VecCfg('fixed', 3, 'U32', 'tc')]
    def gen(rng, cfg, k):
        return V.gen_history(rng, cfg, 40, soft_cap=cfg.n, p_over=0.0, strict=True)
    ctx.coverage['rule'] = ('random histories whose sizes and reserve requests never exceed N (copy/move/swap between such containers '
                            'included); after every operation every container must be inline with capacity()==N and the allocator '
                            'ledger must be untouched; non-trivial = some container was exactly full at some point')
    def nontrivial(cfg, lines, obs):
        return any(isinstance(c, tuple) and c[0] == cfg.n for o in obs for c in o.conts)
    VC.run(ctx, cfgs, gen, n, preds=(inline_pred, VC.oracle_pred, VC.fault_pred), nontrivial=nontrivial, label='C05 confined history')
    # SmallSet clause: the key domain has exactly N (equivalence classes of) keys, so no set of the pool can ever hold more than N
    # elements; under every mix of insert / erase / copy / move / swap / merge / node transfer the counting allocator of the backing
    # set must never be called
    scfgs = [S.SetCfg('small', 4, 'std', cmp='less', pool=3), S.SetCfg('small', 5, 'flat', cmp='greater', pool=3)]
    if ctx.tier == 'thorough':
        scfgs += [S.SetCfg('small', 3, 'flat', cmp='less', cat='ntr', pool=3), S.SetCfg('small', 6, 'std', cmp='less', cat='ntr', pool=2)]
    SC.run(ctx, scfgs, lambda rng, cfg, k: S.gen_history(rng, cfg, 50, dom=cfg.n, bulk_max=cfg.n), n // 2, preds=(SC.oracle_pred, noalloc_pred),
           nontrivial=lambda cfg, lines, obs: any(c[0] == cfg.n for o in obs for c in o.conts) and any(l.startswith('mrg') for l in lines),
           label='C05 SmallSet confined history')

def replay(ctx, path):
    if any('kind=set' in l for l in open(path) if l.startswith('cfg ')):
        return SC.replay_file(path, preds=(SC.oracle_pred, noalloc_pred))
    return VC.replay_file(path, preds=(inline_pred, VC.oracle_pred, VC.fault_pred))
