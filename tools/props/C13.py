"""C13 — swap2 exchanges contents between any two vector flavours, or fails cleanly"""
from vlib import veccheck as VC, vec as V

PROPERTY = 'C13'
LEVEL = 'proof'

def states(fl, n):
    """operand states as (name, setup lines for pool-1 container 0); sizes stay <= 6"""
    vals = lambda k, base: ','.join(str(base + i) for i in range(k)) if k else '-'
    st = [('empty', [])]
    if fl == 'fixed':
        if n >= 2: st.append(('partial', [('apr', vals(max(1, n // 2), 10))]))
        st.append(('full', [('apr', vals(min(n, 6), 20))]))
        return st
    if fl == 'small':
        if n >= 2: st.append(('inline-partial', [('apr', vals(n - 1, 10))]))
        st.append(('inline-full', [('apr', vals(n, 20))]))
        st.append(('heap-small', [('apr', vals(n + 2, 30))] + [('pop', None)] * 3))      # heap, size <= N
        st.append(('heap-big', [('apr', vals(n + 2, 40))]))
        st.append(('heap-empty', [('apr', vals(n + 1, 50)), ('clr', None)]))
        return st
    st.append(('heap', [('apr', vals(3, 30))]))
    st.append(('heap-spare', [('apr', vals(5, 40)), ('rsv', 9)]))
    st.append(('heap-empty', [('apr', vals(2, 50)), ('clr', None)]))
    return st

def emit(setup, second):
    out = []
    for op, arg in setup:
        name = op + ('2' if second else '')
        out.append(f'{name} 0' + ('' if arg is None else f' {arg}'))
    return out

def gen_all(cfg):
    f2, n2, s2, a2 = cfg.partner
    scripts = []
    for na, sa in states(cfg.fl, cfg.n):
        for nb, sb in states(f2, n2):
            lines = emit(sa, False) + emit(sb, True)
            lines += ['sw2 0 0', 'push 0 77', 'push2 0 88', 'sw2 0 0', 'pop 0', 'sw2 0 0', 'new']
            scripts.append((f'{na} x {nb}', lines))
    # sizes that do not fit the other operand's size_type / fixed capacity: swap2 must throw and leave both operands untouched
    # (300 and 260 wrap to 44 and 4 in an 8-bit size_type: a narrowed size computation would pass the capacity check)
    KM = dict(V.ST_MAX)
    lim_a = cfg.n if cfg.fl == 'fixed' else KM[cfg.st]
    lim_b = n2 if f2 == 'fixed' else KM[s2]
    for big in (130, 200, 260, 300):
        for na, sa in states(cfg.fl, cfg.n)[:3]:
            if lim_b >= big and lim_a < big:
                lines = emit(sa, False) + ['apr2 0 ' + ','.join(str(1 + i % 90) for i in range(big)), 'sw2 0 0', 'push 0 77', 'pop2 0', 'sw2 0 0', 'new']
                scripts.append((f'{na} x huge{big}', lines))
        for nb, sb in states(f2, n2)[:3]:
            if lim_a >= big and lim_b < big:
                lines = ['apr 0 ' + ','.join(str(1 + i % 90) for i in range(big))] + emit(sb, True) + ['sw2 0 0', 'push2 0 88', 'pop 0', 'sw2 0 0', 'new']
                scripts.append((f'huge{big} x {nb}', lines))
    # a capacity (not a size) that does not fit the other operand's size_type: the heap buffers cannot simply be exchanged although
    # both SIZES fit (a capacity narrowed into the other size_type would later be handed back to the allocator with a wrong count)
    if cfg.fl != 'fixed' and f2 != 'fixed':
        for bigcap in (150, 300):
          if lim_a < bigcap <= lim_b:
            for na, sa in states(cfg.fl, cfg.n):
                lines = emit(sa, False) + ['apr2 0 1,2,3', f'rsv2 0 {bigcap}', 'sw2 0 0', 'push 0 77', 'push2 0 88', 'sw2 0 0', 'shr 0', 'shr2 0', 'sw2 0 0', 'new']
                scripts.append((f'{na} x bigcap{bigcap}', lines))
          if lim_b < bigcap <= lim_a:
            for nb, sb in states(f2, n2):
                lines = ['apr 0 1,2,3', f'rsv 0 {bigcap}'] + emit(sb, True) + ['sw2 0 0', 'push 0 77', 'push2 0 88', 'sw2 0 0', 'shr 0', 'shr2 0', 'sw2 0 0', 'new']
                scripts.append((f'bigcap{bigcap} x {nb}', lines))
    return scripts

PAIRS_QUICK = [
    (('small', 4, 'U8', 'ntr', 0), ('std', 0, 'U32', 0)),
    (('small', 3, 'U32', 'tr', 0), ('small', 6, 'U32', 0)),
    (('std', 0, 'U8', 'ntr', 0), ('std', 0, 'U32', 0)),
    (('fixed', 4, 'U8', 'ntr', 0), ('small', 2, 'U32', 0)),
    (('small', 2, 'U16', 'tc', 1), ('small', 5, 'U16', 1)),
    (('std', 0, 'U32', 'ntr', 1), ('small', 3, 'U32', 0)),
    (('fixed', 6, 'U8', 'tr', 0), ('fixed', 3, 'U8', 0)),
    (('small', 4, 'U8', 'tr', 0), ('fixed', 8, 'U8', 0)),
    (('small', 4, 'U32', 'ntr', 0), ('small', 4, 'U8', 0)),
]
PAIRS_MORE = [
    (('std', 0, 'U32', 'tc', 0), ('small', 2, 'U8', 0)),
    (('small', 1, 'U8', 'ntr', 0), ('small', 7, 'U64', 0)),
    (('std', 0, 'U64', 'ntr', 0), ('std', 0, 'U16', 0)),
    (('fixed', 2, 'U8', 'ntr', 0), ('std', 0, 'U32', 1)),
    (('small', 5, 'U16', 'tr', 1), ('std', 0, 'U16', 1)),
    (('small', 3, 'U8', 'tc', 0), ('small', 3, 'U8', 0)),
    (('fixed', 5, 'U16', 'ntr', 0), ('fixed', 5, 'U16', 0)),
    (('small', 6, 'U32', 'ntr', 1), ('small', 2, 'U32', 0)),
]

# same width, different signedness: the Lean side has no signed word model, so these pairs are run on the implementation only
# (std::vector oracle, lifetime and allocator ledgers, sanitizers) -- a search for a failing input, not part of the proof
PAIRS_SIGNED = [
    (('small', 3, 'U8', 'ntr', 0), ('small', 3, 'I8', 0)),
    (('std', 0, 'I8', 'ntr', 0), ('std', 0, 'U8', 0)),
    (('small', 2, 'I16', 'tr', 1), ('std', 0, 'U16', 1)),
]

def run(ctx):
    ok = ctx.lean(['AmcVerif.Props.C13', 'AmcVerif.Props.C13b', 'AmcVerif.Props.C13c', 'AmcVerif.Props.C13d', 'AmcVerif.Props.C13e'], extra_modules=['AmcVerif.Bridge.VecGlueBridge'])
    pairs = PAIRS_QUICK + (PAIRS_MORE if ctx.tier == 'thorough' or not ok else [])
    total = 0
    # build every pair's harness in one parallel batch (the per-pair runs below then hit the cache)
    V.build([V.VecCfg(a[0], a[1], a[2], a[3], alloc=a[4], pool=1, partner=b, pool2=1) for a, b in pairs])
    for a, b in pairs:
        cfg = V.VecCfg(a[0], a[1], a[2], a[3], alloc=a[4], pool=1, partner=b, pool2=1)
        scripts = gen_all(cfg)
        total += len(scripts)
        it = iter(scripts)
        def gen(rng, c, k, it=it):
            name, lines = next(it)
            return lines
        VC.run(ctx, [cfg], gen, len(scripts), preds=(VC.oracle_pred, VC.fault_pred), nontrivial=lambda c, l, o: True, label='C13 swap2 pair')
    scfgs = [V.VecCfg(a[0], a[1], a[2], a[3], alloc=a[4], pool=1, partner=b, pool2=1) for a, b in PAIRS_SIGNED]
    V.build(scfgs)
    nsigned = 0
    for cfg in scfgs:
        scripts = gen_all(cfg)
        nsigned += len(scripts)
        it = iter(scripts)
        def gen(rng, c, k, it=it):
            name, lines = next(it)
            return lines
        VC.run(ctx, [cfg], gen, len(scripts), preds=(VC.oracle_pred, VC.fault_pred), need_model=False, nontrivial=lambda c, l, o: True,
               label='C13 swap2 pair, size types of equal width and different signedness (implementation and std::vector oracle only)')
    ctx.coverage['signed_pairs_impl_only'] = nsigned
    ctx.coverage['exhaustive'] = True
    ctx.coverage['operand_state_pairs'] = total
    ctx.coverage['rule'] = ('every ordered pair of the listed configurations (flavour, N, size_type, allocator) x every pair of operand states '
                            '{empty, inline partial, inline full, heap with size<=N, heap with size>N, heap empty / with spare capacity}: '
                            'swap2, continued use of both operands, swap2 back, drain; both sequences compared with std::vector, exception kind '
                            'and unchanged operands on failure, live-object and allocator ledgers, and everything diffed against the Lean model')

def replay(ctx, path):
    signed = any(l.startswith('cfg ') and (' st=I' in l or ' st2=I' in l) for l in open(path))
    return VC.replay_file(path, preds=(VC.oracle_pred, VC.fault_pred), need_model=not signed)
