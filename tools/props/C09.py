"""C09 — exception safety: basic guarantee everywhere, strong where documented"""
from vlib import veccheck as VC, vec as V, common as C

PROPERTY = 'C09'
LEVEL = 'proof'

STRONG = {'push', 'pushm', 'pushs', 'emb', 'embs', 'ins', 'insm', 'inss', 'emp', 'emps', 'empa', 'apr', 'apri', 'apn', 'apv', 'apvs',
          'rsv', 'shr', 'cct', 'rsz', 'rszv', 'rszs'}
KMAX = 9          # throw indices tried per scenario

def _l(v, k):
    return ','.join([str(v)] * k) if k > 0 else '-'

def scenarios(cfg, rng, count):
    """(setup lines, operation line) pairs: operation x position x count x grows-or-not x inline/heap state"""
    out = []
    n = cfg.n if cfg.fl != 'std' else 3
    for _ in range(count):
        sz = rng.choice([0, 1, 2, 3, 4, 5])
        if cfg.fl == 'fixed':
            sz = min(sz, cfg.n - 1) if cfg.n > 1 else 0
        setup = []
        if sz:
            setup.append('apr 0 ' + ','.join(str(10 + i) for i in range(sz)))
        r = rng.random()
        if cfg.fl != 'fixed':
            if r < 0.35:
                setup.append(f'rsv 0 {sz + rng.randrange(1, 8)}')      # spare capacity: no growth
            elif r < 0.6:
                setup.append('shr 0')                                  # exactly full: growth
        setup.append('apr 1 31,32,33')
        p = rng.randrange(0, 8); k = rng.randrange(1, 4); v = 99
        room = (cfg.n - sz) if cfg.fl == 'fixed' else 99
        k = max(1, min(k, room)) if room > 0 else 1
        ops = [f'push 0 {v}', f'pushm 0 {v}', 'pushs 0 1', f'emb 0 {v}', 'embs 0 0', f'ins 0 {p} {v}', f'insm 0 {p} {v}', f'inss 0 {p} 1',
               f'emp 0 {p} {v}', f'emps 0 {p} 0', f'insn 0 {p} {k} {v}', f'insns 0 {p} {k} 0', f'insr 0 {p} ' + _l(7, k),
               f'insn 0 {sz} {k} {v}', f'insr 0 {sz} ' + _l(7, k), f'asn 0 {rng.randrange(0, 7) if room >= 6 else min(sz + k, cfg.n)} {v}',
               'asr 0 ' + _l(5, (min(sz + k, cfg.n) if cfg.fl == 'fixed' else rng.randrange(0, 7))),
               f'rsz 0 {sz + k}', f'rszv 0 {sz + k} {v}', f'apr 0 ' + _l(4, k), f'apn 0 {k}', f'apv 0 {k} {v}', 'cpy 0 1', 'cct 2 0',
               'cct 2 1']
        if cfg.fl != 'fixed':
            ops += [f'rsv 0 {sz + 10}', 'shr 0', f'insri 0 {p} 7,8', 'apri 0 7,8,9']
        out.append((setup, rng.choice(ops)))
    return out

def gen(rng, cfg, k):
    lines = []
    for setup, op in scenarios(cfg, rng, 1):
        for kk in range(1, KMAX + 1):
            lines += setup + [f'thr {kk}', op, 'push 0 1', 'pop 0', 'new']
    return lines

def exc_pred(cfg, lines, obs):
    out = []
    for o in obs:
        if o.idx >= len(lines):
            break
        t = lines[o.idx].split()
        if o.res in ('exc:elem', 'exc:alloc'):
            # basic guarantee: ledgers consistent, every visible element alive and not moved-from (faults), no object outside a container
            if cfg.cat != 'tc':
                visible = sum(c[0] for c in o.conts if isinstance(c, tuple))
                if o.live != '-' and int(o.live) != visible:
                    out.append((o.idx, f'{t[0]}: {o.live} live objects but {visible} visible elements after {o.res} (leak or lost element)'))
            heap = sum(1 for c in o.conts if isinstance(c, tuple) and c[2] == 0 and c[1] > 0)
            if o.blocks != heap:
                out.append((o.idx, f'{t[0]}: {o.blocks} allocator blocks for {heap} heap-backed containers after {o.res}'))
            if t[0] in STRONG and o.oracle != 'unchanged':
                out.append((o.idx, f'{t[0]}: strong guarantee expected but contents changed after {o.res}'))
    return out

def signature(f):
    """known finding V9: insertion of several elements strictly before end() whose copy throws after the tail was shifted.
    Matched only when the (shrunk) failing script injects its exception into such an insertion."""
    try:
        obs = [V.parse_line(l) for l in f.run.impl]
    except Exception:
        return {}
    # the last injected exception at or before the failing observation decides
    hit = None
    prev = None
    for o in obs:
        if o.idx > f.idx or o.idx >= len(f.lines):
            break
        t = f.lines[o.idx].split()
        if o.res in ('exc:elem', 'exc:alloc'):
            hit = None
            if t[0] in ('insn', 'insns', 'insr') and prev is not None:
                c = prev.conts[int(t[1])]
                if isinstance(c, tuple) and c[0] > 0 and int(t[2]) % (c[0] + 1) < c[0]:
                    hit = {'finding': 'V9'}
        elif t[0] == 'new' and o.idx < f.idx:
            hit = None
        prev = o
    return hit or {}

def run(ctx):
    ok = ctx.lean(['AmcVerif.Props.C09', 'AmcVerif.Props.C09b'], extra_modules=['AmcVerif.Bridge.VecGlueBridge', 'AmcVerif.Bridge.VecHelpersBridge'])
    n = 70 if ctx.tier == 'quick' else 600
    if not ok:
        n *= 2
    cfgs = [V.VecCfg('small', 3, 'U32', 'ntr'), V.VecCfg('small', 3, 'U32', 'tr'), V.VecCfg('std', 0, 'U32', 'ntr', alloc=1),
            V.VecCfg('fixed', 6, 'U8', 'ntr'), V.VecCfg('std', 0, 'U32', 'tr')]
    if ctx.tier == 'thorough':
        cfgs += [V.VecCfg('small', 4, 'U8', 'ntr', alloc=1), V.VecCfg('fixed', 5, 'U16', 'tr'), V.VecCfg('small', 2, 'U64', 'tr')]
    ctx.coverage['rule'] = ('scenario = (container state: size 0..5, spare capacity / exactly full / inline) x operation x position x count; every '
                            f'scenario is re-run with the injected throw at the k-th throwing event for k = 1..{KMAX} (element copy construction, '
                            'copy assignment, value initialisation, allocator call); after each throw: live-object ledger = visible elements, '
                            'allocator ledger = heap-backed containers, no moved-from/dead visible element, strong-guarantee operations leave '
                            'the contents unchanged, the container is used again and drained; all observations diffed against the Lean model '
                            '(same fuel semantics); non-trivial = an injected exception fired')
    def nontrivial(cfg, lines, obs):
        return any(o.res in ('exc:elem', 'exc:alloc') for o in obs)
    VC.run(ctx, cfgs, gen, n, preds=(exc_pred, VC.fault_pred), nontrivial=nontrivial, label='C09 fault schedule', signature=signature, max_report=6)
    ctx.coverage['fault_kinds_fired'] = ctx.coverage.get('exception_kinds', {})
    # SmallSet::grow() under a throwing allocation (where known finding V18 lives)
    g = smallset_grow(ctx)
    if g is not None:
        gbad, gtot = g
        ctx.coverage['smallset_grow'] = {'rule': 'SmallSet<E,N> (N = 1, 3, 4; std::set- and FlatSet-backed) filled to N, one more insertion with the k-th '
                                         'allocator call throwing, k = 1..N+2, one process per scenario: visible elements alive and not moved-from, no '
                                         'object outside the set, erasing everything visible leaves an empty set, nothing alive after destruction',
                                         'total': gtot, 'failing': len(gbad)}
        seen = set()
        for h, d in gbad:
            sig = grow_signature(h)
            key = sig.get('finding', h)
            if key in seen:
                continue
            seen.add(key)
            ctx.violation(f'SmallSet::grow interrupted by a throwing allocation: {d[:200]}',
                          'kind=smallset-grow\n# harness/setgrow_harness.cpp\n' + ''.join(f'scenario: {hh}\n#   {dd}\n' for hh, dd in gbad if grow_signature(hh) == sig),
                          found_input=True, signature=sig)
    # element types whose move constructor throws: the exception must reach the caller (a wrong noexcept specification makes it
    # std::terminate), nothing leaked or destroyed twice, both vectors usable afterwards
    r = throwing_move(ctx)
    if r is not None:
        bad, tot = r
        ctx.coverage['throwing_move'] = {'rule': 'swap / move assignment / move construction between two FixedCapacityVector<E,4> (sizes 0..4) and two '
                                         'SmallVector<E,3> (sizes 0..5, i.e. inline and heap-backed operands), E with a throwing move constructor and '
                                         'its own noexcept swap, throw at the k-th move for every k; one process per scenario', 'total': tot,
                                         'failing': len(bad)}
        if bad:
            txt = 'kind=throwing-move\n# harness/swapthrow_harness.cpp, one line per failing scenario (replay re-runs exactly these)\n'
            txt += ''.join(f'scenario: {h}\n#   {d}\n' for h, d in bad[:40])
            ctx.violation(f'throwing move constructor: {len(bad)} scenario(s) fail, e.g. {bad[0][1][:200]}', txt, found_input=True)

def throwing_move(ctx, only=None):
    """swap / move construction / move assignment between vectors with inline storage of an element type whose MOVE constructor may
    throw and which has its own noexcept swap (harness/swapthrow_harness.cpp): every (operation, size a, size b, throw index k), each
    in its own process. Returns the list of failing scenario lines."""
    (path, log), = C.build_many([dict(src='swapthrow_harness.cpp', defs=[], name='swapthrow')])
    if path is None:
        ctx.violation('throwing-move harness does not build: ' + log[-300:], 'kind=build\n' + log[-3000:], found_input=True)
        return None
    p = C.sh([path] + (only or []), timeout=900)
    out = (p.stdout or '') + (p.stderr or '')
    lines = out.splitlines()
    bad = []
    for i, l in enumerate(lines):
        if 'VIOLATION' in l:
            # a crash verdict is printed by the parent on the line(s) after the scenario header
            j = i
            while j >= 0 and ' -> ' not in lines[j] and '->' not in lines[j]:
                j -= 1
            hdr = lines[j] if j >= 0 else l
            bad.append((hdr.split('->')[0].strip(), ' | '.join(x.strip() for x in lines[j:i + 1])[:600]))
    tot = [l for l in lines if l.startswith('TOTAL')]
    if not tot:
        bad.append(('-', 'harness produced no TOTAL line: ' + out[-300:]))
    return bad, (tot[0] if tot else '')

def smallset_grow(ctx, only=None):
    """SmallSet::grow() interrupted by a throwing allocation (harness/setgrow_harness.cpp): backing set x N x throw at the k-th
    allocator call, one process per scenario. Returns (failing scenarios [(header, detail)], TOTAL line)."""
    (path, log), = C.build_many([dict(src='setgrow_harness.cpp', defs=[], name='setgrow')])
    if path is None:
        ctx.violation('SmallSet grow harness does not build: ' + log[-300:], 'kind=build\n' + log[-3000:], found_input=True)
        return None
    p = C.sh([path], timeout=600)
    lines = ((p.stdout or '') + (p.stderr or '')).splitlines()
    bad = []
    for i, l in enumerate(lines):
        if 'VIOLATION' in l:
            j = i
            while j >= 0 and '->' not in lines[j]:
                j -= 1
            hdr = lines[j] if j >= 0 else l
            bad.append((hdr.split('->')[0].strip(), ' | '.join(x.strip() for x in lines[j:i + 1])[:400]))
    if only is not None:
        bad = [b for b in bad if b[0] in only]
    tot = [l for l in lines if l.startswith('TOTAL')]
    if not tot:
        bad.append(('-', 'harness produced no TOTAL line: ' + '\n'.join(lines)[-300:]))
    return bad, (tot[0] if tot else '')

def grow_signature(hdr):
    """known finding V18: std::set-backed SmallSet, the k-th NODE allocation of grow() throws after at least one element was moved
    into the backing set (2 <= k <= N)"""
    f = hdr.split()
    try:
        kv = dict(x.split('=') for x in f[2:])
        if f[0] == 'grow' and f[1] == 'stdset' and 2 <= int(kv['k']) <= int(kv['n']):
            return {'finding': 'V18'}
    except Exception:
        pass
    return {}

def replay(ctx, path):
    txt = open(path).read()
    if 'kind=smallset-grow' in txt:
        want = [l[len('scenario: '):].strip() for l in txt.splitlines() if l.startswith('scenario: ')]
        r = smallset_grow(ctx, only=set(want))
        if r is None or r[0]:
            print('REPLAY: still fails:', '; '.join(d for h, d in (r[0] if r else []))[:600]); return 1
        print('REPLAY: no failure'); return 0
    if 'kind=throwing-move' in txt:
        rc = 0
        for l in txt.splitlines():
            if l.startswith('scenario: '):
                f = l.split()[1:]
                only = [f[0], f[1]] + [x.split('=')[1] for x in f[2:5]]
                r = throwing_move(ctx, only)
                if r is None or r[0]:
                    print('REPLAY: still fails:', r[0][0][1] if r and r[0] else 'build'); rc = 1
                else:
                    print('REPLAY: no failure for', ' '.join(f))
        return rc
    return VC.replay_file(path, preds=(exc_pred, VC.fault_pred))
