"""C09 — exception safety: basic guarantee everywhere, strong where documented"""
from vlib import veccheck as VC, vec as V

PROPERTY = 'C09'
LEVEL = 'proof'

STRONG = {'push', 'pushm', 'pushs', 'emb', 'embs', 'ins', 'insm', 'inss', 'emp', 'emps', 'empa', 'apr', 'apri', 'apn', 'apv', 'apvs',
          'rsv', 'shr', 'cct', 'rsz', 'rszv', 'rszs'}
KMAX = 9          # throw indices tried per scenario

def _l(v, k):
    return ','.join([str(v)] * k) if k > 0 else '-'

def scenarios(cfg, rng, count):
    """(setup lines, operation line) pairs: operation x position x count x grows-or-not x inline/heap state"""
    out = []
    n = cfg.n if cfg.fl != 'std' else 3
    for _ in range(count):
        sz = rng.choice([0, 1, 2, 3, 4, 5])
        if cfg.fl == 'fixed':
            sz = min(sz, cfg.n - 1) if cfg.n > 1 else 0
        setup = []
        if sz:
            setup.append('apr 0 ' + ','.join(str(10 + i) for i in range(sz)))
        r = rng.random()
        if cfg.fl != 'fixed':
            if r < 0.35:
                setup.append(f'rsv 0 {sz + rng.randrange(1, 8)}')      # spare capacity: no growth
            elif r < 0.6:
                setup.append('shr 0')                                  # exactly full: growth
        setup.append('apr 1 31,32,33')
        p = rng.randrange(0, 8); k = rng.randrange(1, 4); v = 99
        room = (cfg.n - sz) if cfg.fl == 'fixed' else 99
        k = max(1, min(k, room)) if room > 0 else 1
        ops = [f'push 0 {v}', f'pushm 0 {v}', 'pushs 0 1', f'emb 0 {v}', 'embs 0 0', f'ins 0 {p} {v}', f'insm 0 {p} {v}', f'inss 0 {p} 1',
               f'emp 0 {p} {v}', f'emps 0 {p} 0', f'insn 0 {p} {k} {v}', f'insns 0 {p} {k} 0', f'insr 0 {p} ' + _l(7, k),
               f'insn 0 {sz} {k} {v}', f'insr 0 {sz} ' + _l(7, k), f'asn 0 {rng.randrange(0, 7) if room >= 6 else min(sz + k, cfg.n)} {v}',
               'asr 0 ' + _l(5, (min(sz + k, cfg.n) if cfg.fl == 'fixed' else rng.randrange(0, 7))),
               f'rsz 0 {sz + k}', f'rszv 0 {sz + k} {v}', f'apr 0 ' + _l(4, k), f'apn 0 {k}', f'apv 0 {k} {v}', 'cpy 0 1', 'cct 2 0',
               'cct 2 1']
        if cfg.fl != 'fixed':
            ops += [f'rsv 0 {sz + 10}', 'shr 0', f'insri 0 {p} 7,8', 'apri 0 7,8,9']
        out.append((setup, rng.choice(ops)))
    return out

def gen(rng, cfg, k):
    lines = []
    for setup, op in scenarios(cfg, rng, 1):
        for kk in range(1, KMAX + 1):
            lines += setup + [f'thr {kk}', op, 'push 0 1', 'pop 0', 'new']
    return lines

def exc_pred(cfg, lines, obs):
    out = []
    for o in obs:
        if o.idx >= len(lines):
            break
        t = lines[o.idx].split()
        if o.res in ('exc:elem', 'exc:alloc'):
            # basic guarantee: ledgers consistent, every visible element alive and not moved-from (faults), no object outside a container
            if cfg.cat != 'tc':
                visible = sum(c[0] for c in o.conts if isinstance(c, tuple))
                if o.live != '-' and int(o.live) != visible:
                    out.append((o.idx, f'{t[0]}: {o.live} live objects but {visible} visible elements after {o.res} (leak or lost element)'))
            heap = sum(1 for c in o.conts if isinstance(c, tuple) and c[2] == 0 and c[1] > 0)
            if o.blocks != heap:
                out.append((o.idx, f'{t[0]}: {o.blocks} allocator blocks for {heap} heap-backed containers after {o.res}'))
            if t[0] in STRONG and o.oracle != 'unchanged':
                out.append((o.idx, f'{t[0]}: strong guarantee expected but contents changed after {o.res}'))
    return out

def signature(f):
    """known finding V9: insertion of several elements strictly before end() whose copy throws after the tail was shifted.
    Matched only when the (shrunk) failing script injects its exception into such an insertion."""
    try:
        obs = [V.parse_line(l) for l in f.run.impl]
    except Exception:
        return {}
    # the last injected exception at or before the failing observation decides
    hit = None
    prev = None
    for o in obs:
        if o.idx > f.idx or o.idx >= len(f.lines):
            break
        t = f.lines[o.idx].split()
        if o.res in ('exc:elem', 'exc:alloc'):
            hit = None
            if t[0] in ('insn', 'insns', 'insr') and prev is not None:
                c = prev.conts[int(t[1])]
                if isinstance(c, tuple) and c[0] > 0 and int(t[2]) % (c[0] + 1) < c[0]:
                    hit = {'finding': 'V9'}
        elif t[0] == 'new' and o.idx < f.idx:
            hit = None
        prev = o
    return hit or {}

def run(ctx):
    ok = ctx.lean(['AmcVerif.Props.C09', 'AmcVerif.Props.C09b'], extra_modules=['AmcVerif.Bridge.VecGlueBridge', 'AmcVerif.Bridge.VecHelpersBridge'])
    n = 70 if ctx.tier == 'quick' else 600
    if not ok:
        n *= 2
    cfgs = [V.VecCfg('small', 3, 'U32', 'ntr'), V.VecCfg('small', 3, 'U32', 'tr'), V.VecCfg('std', 0, 'U32', 'ntr', alloc=1),
            V.VecCfg('fixed', 6, 'U8', 'ntr'), V.VecCfg('std', 0, 'U32', 'tr')]
    if ctx.tier == 'thorough':
        cfgs += [V.VecCfg('small', 4, 'U8', 'ntr', alloc=1), V.VecCfg('fixed', 5, 'U16', 'tr'), V.VecCfg('small', 2, 'U64', 'tr')]
    ctx.coverage['rule'] = ('scenario = (container state: size 0..5, spare capacity / exactly full / inline) x operation x position x count; every '
                            f'scenario is re-run with the injected throw at the k-th throwing event for k = 1..{KMAX} (element copy construction, '
                            'copy assignment, value initialisation, allocator call); after each throw: live-object ledger = visible elements, '
                            'allocator ledger = heap-backed containers, no moved-from/dead visible element, strong-guarantee operations leave '
                            'the contents unchanged, the container is used again and drained; all observations diffed against the Lean model '
                            '(same fuel semantics); non-trivial = an injected exception fired')
    def nontrivial(cfg, lines, obs):
        return any(o.res in ('exc:elem', 'exc:alloc') for o in obs)
    VC.run(ctx, cfgs, gen, n, preds=(exc_pred, VC.fault_pred), nontrivial=nontrivial, label='C09 fault schedule', signature=signature, max_report=6)
    ctx.coverage['fault_kinds_fired'] = ctx.coverage.get('exception_kinds', {})

def replay(ctx, path):
    return VC.replay_file(path, preds=(exc_pred, VC.fault_pred))
