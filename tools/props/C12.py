"""C12 — a hint is only a hint: hinted insertion equals plain insertion for every hint"""
import itertools
from vlib import setcheck as SC, sets as S
from props import scommon
PROPERTY = 'C12'
LEVEL = 'proof'

def exhaustive_scripts(cfg, dom, chunk=150):
    """all subsets of the key domain x all hint positions x all values, for insert(hint, v) and emplace_hint(hint, v);
    each case rebuilds the content in container 0 and applies the hinted insertion there and a plain insert in container 1"""
    keys = list(range(1, 2 * dom, 2))            # odd keys; values range over 0..2*dom (below / between / above / present)
    cases = []
    for r in range(len(keys) + 1):
        for sub in itertools.combinations(keys, r):
            for h in range(len(sub) + 1):
                for v in range(0, 2 * dom + 1):
                    cases.append((sub, h, v))
    scripts = []
    for i in range(0, len(cases), chunk):
        lines = []
        for j, (sub, h, v) in enumerate(cases[i:i + chunk]):
            vals = ','.join(map(str, sub)) if sub else '-'
            lines += [f'insr 0 {vals}', f'insr 1 {vals}', f'{"insh" if (i + j) % 2 == 0 else "emph"} 0 {h} {v}', f'ins 1 {v}', 'cmp 0 1', 'clr 0', 'clr 1']
        scripts.append(lines)
    return scripts, len(cases)

def same_as_plain(cfg, lines, obs):
    out = []
    for o in obs:
        if o.idx < len(lines) and lines[o.idx].startswith('cmp 0 1') and o.ret[:1] != '1':
            out.append((o.idx, 'hinted insertion and plain insertion produced different sets'))
    return out

def run(ctx):
    ok = ctx.lean(['AmcVerif.Props.C12', 'AmcVerif.Props.C12b'], extra_modules=['AmcVerif.Bridge.FlatSetBridge'])
    dom = 5 if ctx.tier == 'quick' else 7
    cfgs = [S.SetCfg('flat', cmp='less', pool=2), S.SetCfg('flat', cmp='greater', uvec='std', pool=2), S.SetCfg('flat', cmp='mod', uvec='small', pool=2)]
    if ctx.tier == 'thorough':
        cfgs.append(S.SetCfg('flat', cmp='less', uvec='fixed', pool=2))
    total = 0
    for cfg in cfgs:
        scripts, ncases = exhaustive_scripts(cfg, dom)
        total += ncases
        it = iter(scripts)
        SC.run(ctx, [cfg], lambda rng, c, k, it=it: next(it), len(scripts), preds=(SC.oracle_pred, same_as_plain),
               nontrivial=lambda c, l, o: True, label='C12 exhaustive hint')
    ctx.coverage['cases_enumerated'] = total
    ctx.coverage['distinct_nontrivial'] = total
    ctx.coverage['exhaustive'] = True
    ctx.coverage['rule'] = (f'complete enumeration: all subsets of a {dom}-key domain x all hint positions in [begin, end] x all values (present, '
                            'absent, below, above, between) x {insert(hint, v), emplace_hint(hint, v)} x comparators {less, greater, coarse mod 5}: '
                            'resulting set equal to plain insert, returned iterator designates the equivalent element, comparator-call '
                            'counts equal to the Lean model; every case is non-trivial (distinct content/hint/value triple)')

def replay(ctx, path):
    return SC.replay_file(path, preds=(SC.oracle_pred, same_as_plain))
