"""C08 — capacity-limit errors are clean: exception thrown, container untouched"""
from vlib import veccheck as VC, vec as V

PROPERTY = 'C08'
LEVEL = 'proof'

def limit_pred(cfg, lines, obs):
    """at a capacity error the container is exactly as before, nothing is leaked, the right exception is thrown"""
    out = []
    prev = None
    for o in obs:
        if o.idx >= len(lines):
            break
        t = lines[o.idx].split()
        if o.res in ('exc:overflow', 'exc:range'):
            want = 'exc:range' if (cfg.fl == 'fixed' or t[0] == 'at') else 'exc:overflow'
            if o.res != want:
                out.append((o.idx, f'{t[0]}: threw {o.res}, expected {want}'))
            if o.oracle != 'unchanged':
                out.append((o.idx, f'{t[0]}: contents changed by a capacity error ({o.oracle})'))
            if prev is not None:
                single_pass = t[0] in ('insri', 'apri')
                def view(cs):
                    # a single pass range has no length known in advance: capacity may have grown before the limit was met
                    return [(c[0], c[3]) if (single_pass and isinstance(c, tuple)) else c for c in cs]
                if view(o.conts) != view(prev.conts):
                    out.append((o.idx, f'{t[0]}: size/capacity/state changed by a capacity error'))
                if o.live != prev.live or (o.blocks != prev.blocks and not single_pass):
                    out.append((o.idx, f'{t[0]}: live objects {prev.live}->{o.live}, blocks {prev.blocks}->{o.blocks} across a capacity error'))
        prev = o
    return out

def gen_limit(rng, cfg, k):
    """histories that live in the neighbourhood of the limit: fill close to it, then exercise every growing operation"""
    lines = []
    hard = cfg.maxsize()
    c = 0
    near = max(0, hard - rng.randrange(0, 4))
    if hard <= 300:
        if near:
            lines.append(f'apr {c} ' + ','.join(str(rng.randrange(1, 100)) for _ in range(near)))
    body = V.gen_history(rng, cfg, 25, soft_cap=hard, p_over=0.35, allow_input_it=True,
                         ops_filter=lambda op: op != 'asri' and (op not in ('clr', 'mov', 'mct', 'cct', 'swp', 'cpy', 'asr', 'asn', 'asns', 'rsz', 'rszv', 'rszs') or rng.random() < 0.3))
    # sizes predicted by the generator start from `near`
    return lines + body

def run(ctx):
    ok = ctx.lean(['AmcVerif.Props.C08', 'AmcVerif.Props.C08b', 'AmcVerif.Props.C01e'], extra_modules=['AmcVerif.Bridge.VecGlueBridge', 'AmcVerif.Bridge.VecHelpersBridge', 'AmcVerif.Bridge.VecAccessBridge'])
    n = 60 if ctx.tier == 'quick' else 500
    if not ok:
        n *= 3
    cfgs = [V.VecCfg('small', 4, 'U8', 'ntr'), V.VecCfg('std', 0, 'U8', 'tr'), V.VecCfg('fixed', 6, 'U8', 'ntr'),
            V.VecCfg('fixed', 3, 'U32', 'tc'), V.VecCfg('small', 3, 'U8', 'tc', alloc=1), V.VecCfg('fixed', 5, 'U16', 'tr')]
    if ctx.tier == 'thorough':
        cfgs += [V.VecCfg('small', 1, 'U8', 'tr'), V.VecCfg('std', 0, 'U8', 'ntr', alloc=1), V.VecCfg('fixed', 9, 'U8', 'tr'),
                 V.VecCfg('fixed', 1, 'U8', 'ntr'), V.VecCfg('fixed', 2, 'U64', 'ntr')]
    ctx.coverage['rule'] = ('histories in the neighbourhood of the limit (FixedCapacityVector N, 8-bit size_type maximum): the container is '
                            'filled to within 3 of the limit, then growing operations at every position/count are applied, 35% of them '
                            'exceeding the limit; on each capacity error: exception kind, contents, size, capacity, live-object and '
                            'block counts before vs after; the run continues afterwards (container remains usable) under ASan/UBSan; '
                            'non-trivial = at least one capacity error was raised')
    def nontrivial(cfg, lines, obs):
        return any(o.res in ('exc:overflow', 'exc:range') for o in obs)
    VC.run(ctx, cfgs, gen_limit, n, preds=(limit_pred, VC.oracle_pred, VC.fault_pred), nontrivial=nontrivial, label='C08 limit history')
    # 32-bit size types: a count so large that size() + count exceeds 2^32 - 1 (a sum computed in size_type would wrap to a small value
    # and pass the capacity check). Always beyond the limit: the request must be refused before anything is touched.
    cfgs32 = [V.VecCfg('small', 3, 'U32', 'ntr'), V.VecCfg('std', 0, 'U32', 'tc')]
    def gen_wrap(rng, cfg, k):
        c = rng.randrange(cfg.pool)
        sz = rng.randrange(1, 7)
        lines = [f'apr {c} ' + ','.join(str(rng.randrange(1, 100)) for _ in range(sz))]
        for _ in range(4):
            cnt = 2 ** 32 - rng.randrange(0, sz + 1)          # sz + cnt >= 2^32
            op = rng.choice(['insn', 'apn', 'apv'])
            if op == 'insn':
                lines.append(f'insn {c} {rng.randrange(0, sz + 1)} {cnt if cnt < 2 ** 32 else 2 ** 32 - 1} {rng.randrange(1, 100)}')
            elif op == 'apn':
                lines.append(f'apn {c} {min(cnt, 2 ** 32 - 1)}')
            else:
                lines.append(f'apv {c} {min(cnt, 2 ** 32 - 1)} {rng.randrange(1, 100)}')
            lines.append(f'push {c} {rng.randrange(1, 100)}'); sz += 1
        lines.append('new')
        return lines
    VC.run(ctx, cfgs32, gen_wrap, max(10, n // 4), preds=(limit_pred, VC.oracle_pred, VC.fault_pred), nontrivial=nontrivial, label='C08 32-bit wrap-around')
    ctx.assume('signed size types share the unsigned word model of the same width (checked by correspondence only)')

def replay(ctx, path):
    return VC.replay_file(path, preds=(limit_pred, VC.oracle_pred, VC.fault_pred))
