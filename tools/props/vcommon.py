"""configurations and generators shared by the vector properties"""
from vlib import vec as V

def cfgs_quick():
    return [V.VecCfg('small', 4, 'U8', 'ntr'), V.VecCfg('small', 3, 'U32', 'tr'), V.VecCfg('std', 0, 'U32', 'ntr', alloc=1),
            V.VecCfg('fixed', 6, 'U8', 'ntr'), V.VecCfg('small', 5, 'U16', 'tc'), V.VecCfg('std', 0, 'U64', 'tc'),
            V.VecCfg('small', 2, 'U64', 'ntr', alloc=1), V.VecCfg('fixed', 5, 'U16', 'tr'),
            V.VecCfg('std', 0, 'U32', 'ntr', alloc=2), V.VecCfg('small', 3, 'U16', 'tr', alloc=2)]

def cfgs_thorough():
    extra = [V.VecCfg('small', 1, 'U8', 'tr'), V.VecCfg('small', 8, 'U16', 'ntr'), V.VecCfg('std', 0, 'U8', 'tr'),
             V.VecCfg('std', 0, 'U16', 'ntr'), V.VecCfg('fixed', 3, 'U32', 'tc'), V.VecCfg('small', 6, 'U32', 'ntr', alloc=1),
             V.VecCfg('small', 3, 'U8', 'tc', alloc=1), V.VecCfg('fixed', 9, 'U8', 'tr'), V.VecCfg('std', 0, 'U32', 'tc', alloc=1),
             V.VecCfg('small', 7, 'U64', 'tr'), V.VecCfg('small', 2, 'U8', 'ntr', alloc=2), V.VecCfg('std', 0, 'U64', 'tc', alloc=2)]
    return cfgs_quick() + extra

def cfgs(tier):
    return cfgs_thorough() if tier == 'thorough' else cfgs_quick()

def history_gen(nops=40, **kw):
    def g(rng, cfg, k):
        return V.gen_history(rng, cfg, nops, **kw)
    return g

def nontrivial_history(cfg, lines, obs):
    """a history is non-trivial when at least one container crossed inline->heap (or grew) and one op shifted elements"""
    grew = any(o.al[0] + o.al[2] > 0 for o in obs) or cfg.fl == 'fixed'
    mid = any(l.split()[0] in ('ins', 'insm', 'inss', 'insn', 'insns', 'insr', 'insri', 'emp', 'emps', 'empa', 'era', 'eran') for l in lines)
    return grew and mid
