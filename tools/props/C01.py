"""C01 — vector flavours behave as std::vector for every operation history"""
from vlib import veccheck as VC
from props import vcommon

PROPERTY = 'C01'
LEVEL = 'proof'

def run(ctx):
    ok = ctx.lean(['AmcVerif.Props.C01', 'AmcVerif.Props.C01b', 'AmcVerif.Props.C01c', 'AmcVerif.Props.C01d', 'AmcVerif.Props.C01e'], extra_modules=['AmcVerif.Bridge.VecGlueBridge', 'AmcVerif.Bridge.VecHelpersBridge', 'AmcVerif.Bridge.VecAccessBridge'])
    n = 60 if ctx.tier == 'quick' else 400
    if not ok:
        n *= 3          # a proof / translation obligation broke: search harder for a concrete failing history
    ctx.coverage['rule'] = ('random operation histories (40 ops) over a pool of 3 same-typed containers, every public operation incl. '
                            'aliasing arguments and single-pass input iterators; distinct by script hash; non-trivial = some container '
                            'reallocated and some operation shifted elements; three-way comparison impl / Lean model / std::vector')
    VC.run(ctx, vcommon.cfgs(ctx.tier), vcommon.history_gen(40), n, fields=VC.corr_fields_basic,
           preds=(VC.oracle_pred,), nontrivial=vcommon.nontrivial_history, label='C01 history')
    ctx.assume('element sequences / return values are tied by correspondence (hand-written slot model vs real containers vs std::vector); '
               'the theorems cover the size/capacity word bookkeeping over the generated base-class members')
    ctx.assume('64-bit size_type: history theorems instantiated for 8/16/32-bit; step theorems for 64-bit under capacity < 2^62')

def replay(ctx, path):
    return VC.replay_file(path, fields=VC.corr_fields_basic, preds=(VC.oracle_pred,))
