"""C06 — allocator protocol: each block returned once with its own size, none left"""
from vlib import veccheck as VC, vec as V
from props import vcommon

PROPERTY = 'C06'
LEVEL = 'proof'

def ledger_pred(cfg, lines, obs):
    out = []
    for o in obs:
        if o.idx >= len(lines):
            break
        t = lines[o.idx].split()
        # every heap-backed container owns exactly one block (a null buffer of capacity 0 owns none); no other block exists
        if t[0] != 'new' and not o.res.startswith('exc:'):
            heap = sum(1 for c in o.conts if isinstance(c, tuple) and c[2] == 0 and c[1] > 0)
            if o.blocks != heap:
                out.append((o.idx, f'{o.blocks} outstanding blocks for {heap} heap-backed containers'))
        # the allocator's reallocate is only used for trivially relocatable element types
        if cfg.cat == 'ntr' and o.al[2] != 0:
            out.append((o.idx, 'allocator reallocate() used for a non relocatable element type'))
        if cfg.alloc == 1 and o.al[2] != 0:
            out.append((o.idx, 'reallocate() called on an allocator that has none'))
    return out

def run(ctx):
    ok = ctx.lean(['AmcVerif.Props.C06', 'AmcVerif.Props.C06b', 'AmcVerif.Props.C06c'], extra_modules=['AmcVerif.Bridge.VecGlueBridge'])
    n = 60 if ctx.tier == 'quick' else 400
    if not ok:
        n *= 3
    cfgs = vcommon.cfgs(ctx.tier)
    ctx.coverage['rule'] = ('random histories over pools of containers with four allocator kinds (amc wrapper over an instrumented basic '
                            'allocator offering realloc, std-like ledger allocator without reallocate; relocatable and non relocatable elements): '
                            'pointer -> byte-count ledger checked at every allocate / reallocate / deallocate (exact size, unknown pointer, '
                            'double return), block count = heap-backed containers after every operation, nothing outstanding at drain, '
                            'reallocate only for relocatable types; allocator call counts also diffed against the Lean model; non-trivial = a '
                            'buffer changed owner (move / swap) in the history')
    def nontrivial(cfg, lines, obs):
        return any(l.split()[0] in ('mov', 'mct', 'swp') for l in lines) and any(o.blocks > 0 for o in obs)
    VC.run(ctx, cfgs, vcommon.history_gen(40, allow_alias=False), n, preds=(VC.fault_pred, ledger_pred), nontrivial=nontrivial, label='C06 history')
    # swap2 hand-over between different flavours
    swcfg = V.VecCfg('small', 3, 'U32', 'tr', alloc=0, pool=2, partner=('std', 0, 'U32', 0), pool2=2)
    def gen2(rng, c, k):
        lines = []
        for _ in range(30):
            r = rng.random()
            if r < 0.3: lines.append(f'apr {rng.randrange(2)} ' + V.vals(rng, rng.randrange(0, 7)))
            elif r < 0.55: lines.append(f'apr2 {rng.randrange(2)} ' + V.vals(rng, rng.randrange(0, 7)))
            elif r < 0.8: lines.append(f'sw2 {rng.randrange(2)} {rng.randrange(2)}')
            elif r < 0.86: lines.append(f'clr {rng.randrange(2)}')
            elif r < 0.92: lines.append(f'shr {rng.randrange(2)}')
            elif r < 0.96: lines.append(f'shr2 {rng.randrange(2)}')
            else: lines.append(f'mov 0 1')
        lines.append('new')
        return lines
    VC.run(ctx, [swcfg], gen2, n // 2, preds=(VC.fault_pred, VC.oracle_pred), nontrivial=lambda c, l, o: any(x.startswith('sw2') for x in l),
           label='C06 swap2 hand-over')
    # a SmallVector that adopted a heap buffer SMALLER than its inline capacity (swap2 hand-over from a small amc::vector), then
    # assigned / move-assigned / swapped with inline vectors holding more elements than that buffer: the adopted block must go back
    def gen_adopt(rng, c, k):
        small = rng.randrange(1, 3)                  # capacity of the buffer that will be adopted (< N = 3)
        lines = ['apr 0 ' + V.vals(rng, rng.randrange(4, 7)), 'apr2 0 ' + V.vals(rng, small), 'sw2 0 0',
                 'apr 1 ' + V.vals(rng, rng.randrange(small + 1, 4))]
        lines.append(rng.choice(['mov 0 1', 'cpy 0 1', 'swp 0 1', 'mov 0 1']))
        for _ in range(4):
            lines.append(rng.choice([f'push {rng.randrange(2)} {rng.randrange(1, 100)}', f'shr {rng.randrange(2)}', 'sw2 0 0', 'mov 1 0', f'clr {rng.randrange(2)}']))
        lines.append('new')
        return lines
    VC.run(ctx, [swcfg], gen_adopt, max(8, n // 6), preds=(VC.fault_pred, VC.oracle_pred, ledger_pred), nontrivial=lambda c, l, o: True,
           label='C06 adopted small buffer')
    # ... and between size types of different width: a buffer whose capacity does not fit the narrower size_type must not change owner
    # (its capacity would be narrowed and the block handed back with a wrong count)
    swcfg8 = V.VecCfg('small', 3, 'U8', 'ntr', alloc=0, pool=2, partner=('std', 0, 'U32', 0), pool2=2)
    def gen3(rng, c, k):
        lines = gen2(rng, c, k)[:-1]
        for _ in range(3):
            lines.insert(rng.randrange(len(lines) + 1), f'rsv2 {rng.randrange(2)} {rng.choice([20, 300, 300, 600])}')
        lines.append('new')
        return lines
    VC.run(ctx, [swcfg8], gen3, n // 2, preds=(VC.fault_pred, VC.oracle_pred), nontrivial=lambda c, l, o: any(x.startswith('sw2') for x in l),
           label='C06 swap2 hand-over, narrow and wide size types')
    ctx.assume('allocators are stateless (always compare equal), as in the property; FlatSet(vector&&) / steal_vector hand-over is exercised by C03')

def replay(ctx, path):
    return VC.replay_file(path, preds=(VC.fault_pred, ledger_pred))
