"""C10 — arguments that refer to the vector's own elements are handled as if copied first"""
from vlib import veccheck as VC, vec as V

PROPERTY = 'C10'
LEVEL = 'proof'

def grid(cfg, maxsize=5, chunk=120):
    cases = []
    top = min(maxsize, cfg.n - 1) if cfg.fl == 'fixed' else maxsize
    for size in range(1, top + 1):
        for spare in (True, False):
            if cfg.fl == 'fixed' and not spare:
                continue
            for i in range(size):
                cases.append((size, spare, f'pushs 0 {i}'))
                cases.append((size, spare, f'embs 0 {i}'))
                for p in range(size + 1):
                    cases.append((size, spare, f'inss 0 {p} {i}'))
                    cases.append((size, spare, f'emps 0 {p} {i}'))
                    cases.append((size, spare, f'empa 0 {p} {i}'))
                    for k in (1, 2, 3):
                        if cfg.fl == 'fixed' and size + k > cfg.n:
                            continue
                        cases.append((size, spare, f'insns 0 {p} {k} {i}'))
                for k in range(0, size + 4):
                    if cfg.fl == 'fixed' and k > cfg.n:
                        continue
                    cases.append((size, spare, f'rszs 0 {k} {i}'))
                    cases.append((size, spare, f'asns 0 {k} {i}'))
                for k in (1, 2, 3):
                    if cfg.fl == 'fixed' and size + k > cfg.n:
                        continue
                    cases.append((size, spare, f'apvs 0 {k} {i}'))
    scripts = []
    for j in range(0, len(cases), chunk):
        lines = []
        for size, spare, op in cases[j:j + chunk]:
            lines += ['clr 0', 'shr 0', 'apr 0 ' + ','.join(str(10 * (x + 1)) for x in range(size))]
            if cfg.fl != 'fixed':
                lines.append(f'rsv 0 {size + 5}' if spare else 'shr 0')
            lines.append(op)
        lines.append('new')
        scripts.append(lines)
    return scripts, len(cases)

def run(ctx):
    ok = ctx.lean(['AmcVerif.Props.C10', 'AmcVerif.Props.C10b'], extra_modules=['AmcVerif.Bridge.VecGlueBridge', 'AmcVerif.Bridge.VecHelpersBridge'])
    cfgs = [V.VecCfg('small', 3, 'U32', 'ntr', pool=1), V.VecCfg('small', 4, 'U8', 'tr', pool=1), V.VecCfg('std', 0, 'U32', 'ntr', alloc=1, pool=1),
            V.VecCfg('std', 0, 'U32', 'tc', pool=1), V.VecCfg('fixed', 8, 'U8', 'ntr', pool=1), V.VecCfg('small', 6, 'U16', 'tc', pool=1)]
    if ctx.tier == 'thorough':
        cfgs += [V.VecCfg('small', 2, 'U64', 'ntr', alloc=1, pool=1), V.VecCfg('fixed', 8, 'U16', 'tr', pool=1), V.VecCfg('std', 0, 'U8', 'tr', pool=1)]
    total = 0
    V.build(cfgs)       # one parallel batch; the per-configuration runs below hit the cache
    for cfg in cfgs:
        scripts, ncases = grid(cfg, 5 if ctx.tier == 'quick' else 6)
        total += ncases
        it = iter(scripts)
        VC.run(ctx, [cfg], lambda rng, c, k, it=it: next(it), len(scripts), fields=VC.corr_fields_basic,
               preds=(VC.oracle_pred, VC.fault_pred), nontrivial=lambda c, l, o: True, label='C10 aliasing grid')
    ctx.coverage['exhaustive'] = True
    ctx.coverage['cases_enumerated'] = total
    ctx.coverage['distinct_nontrivial'] = total
    ctx.coverage['rule'] = ('complete grid: size 1..5 x {spare capacity, exactly full} x source index x insertion position x count 1..3 (resize / '
                            'assign: target 0..size+3) x {push_back, emplace_back, insert, emplace, insert(count), resize(n,v), assign(n,v), '
                            'append(n,v)} whose value argument is v[i]; result compared with std::vector (argument copied first) and with the '
                            'Lean model, identity-tracking elements report reads of moved-from/dead objects')

def replay(ctx, path):
    return VC.replay_file(path, fields=VC.corr_fields_basic, preds=(VC.oracle_pred, VC.fault_pred))
