"""C02 — elements are destroyed exactly once and relocated only as their type allows"""
from vlib import veccheck as VC, vec as V, setcheck as SC, sets as S
from props import vcommon, scommon

PROPERTY = 'C02'
LEVEL = 'proof'

def live_pred(cfg, lines, obs):
    """identity ledger: the number of live element objects equals the number of visible elements after every operation
    (nothing lost, nothing alive outside a container), and nothing is left at drain"""
    out = []
    for o in obs:
        if o.idx >= len(lines) or cfg.cat == 'tc' or o.live == '-':
            continue
        if lines[o.idx].split()[0] == 'new':
            continue
        visible = sum(c[0] for c in o.conts if isinstance(c, tuple))
        if int(o.live) != visible and not o.res.startswith('exc:'):
            out.append((o.idx, f'{o.live} live element objects for {visible} visible elements'))
    return out

def set_live_pred(cfg, lines, obs):
    out = []
    for o in obs:
        if o.idx < len(lines) and lines[o.idx] == 'new' and o.ret not in ('live=0', '-'):
            out.append((o.idx, 'elements left alive after every set was destroyed: ' + o.ret))
    return out

def run(ctx):
    ok = ctx.lean(['AmcVerif.Props.C02', 'AmcVerif.Props.C02b', 'AmcVerif.Props.C02c'], extra_modules=['AmcVerif.Bridge.VecGlueBridge', 'AmcVerif.Bridge.VecHelpersBridge'])
    n = 50 if ctx.tier == 'quick' else 400
    if not ok:
        n *= 3
    vcfgs = [c for c in vcommon.cfgs(ctx.tier) if c.cat != 'tc']
    ctx.coverage['rule'] = ('random histories (vectors: every public operation, every third history with byte-wise relocations of the containers that claim the trait; sets: FlatSet and SmallSet incl. extract/merge/node transfer) with '
                            'element types that carry an identity and (non relocatable flavour) their own address: double destroy, use of a dead '
                            'or moved-from object, self move-assignment, byte-wise move of a self-referential object, visible moved-from '
                            'element, live objects != visible elements, anything alive at drain are reported by the harness ledgers; the '
                            'per-slot lifetime discipline of the Lean model must agree (a model FAULT is a difference); non-trivial = some '
                            'operation shifted elements and some container reallocated')
    base_gen = vcommon.history_gen(40)
    def vgen(rng, cfg, k):
        # every third history also relocates the containers themselves byte-wise (what an outer relocating container does with an
        # element type that claims to be trivially relocatable): a container that claims the trait although its elements are not
        # relocatable gets its inline elements byte-copied
        lines = base_gen(rng, cfg, k)
        if k % 3 == 2:
            from props import C14
            lines = C14.with_reloc(lines, rng, cfg.pool, p=0.2)
        return lines
    VC.run(ctx, vcfgs, vgen, n, preds=(VC.fault_pred, live_pred), nontrivial=vcommon.nontrivial_history,
           label='C02 vector history')
    scfgs = [c for c in scommon.flat_cfgs(ctx.tier) + scommon.small_cfgs(ctx.tier) if c.cat == 'ntr']
    SC.run(ctx, scfgs, lambda rng, cfg, k: S.gen_history(rng, cfg, 40), n // 2, preds=(SC.oracle_pred, set_live_pred), use_cmps=False,
           label='C02 set history')
    ctx.assume('std::set node handling is trusted (backing set of SmallSet); all four language standards are exercised by C16, not here')

def replay(ctx, path):
    txt = open(path).read()
    if 'kind=set' in txt:
        return SC.replay_file(path, preds=(SC.oracle_pred, set_live_pred), use_cmps=False)
    return VC.replay_file(path, preds=(VC.fault_pred, live_pred))
