"""C16 — behaviour independent of C++ standard, pedantic mode, assertions, optimisation"""
import os, random, subprocess, tempfile
from vlib import common as C, vec as V, sets as S

PROPERTY = 'C16'
LEVEL = 'translation_validation'

STDS = ['c++11', 'c++14', 'c++17', 'c++20']
EXTRAS_OPS = {'apr', 'apri', 'apn', 'apv', 'apvs', 'popv'}
SET_EXTRAS = {'fromv', 'asgv', 'steal'}
SET_CXX17 = {'xfer', 'extp'}

def builds(tier):
    """(std, extras, ndebug, opt) combinations"""
    full = [(s, e, n, o) for s in STDS for e in (True, False) for n in (True, False) for o in ('-O0', '-O2')]
    if tier == 'thorough':
        return full
    # quick: every value of every dimension, 8 builds
    return [('c++11', True, True, '-O2'), ('c++11', False, False, '-O0'), ('c++14', True, False, '-O2'), ('c++14', False, True, '-O0'),
            ('c++17', True, True, '-O0'), ('c++17', False, False, '-O2'), ('c++20', True, False, '-O0'), ('c++20', False, True, '-O2')]

def bname(b):
    s, e, n, o = b
    return f"{s.replace('+', 'p')}_{'ex' if e else 'nx'}_{'nd' if n else 'as'}_{o[1:]}"

def build_all(src, defs, blds, prefix):
    jobs = []
    for b in blds:
        s, e, n, o = b
        d = list(defs) + ([] if e else ['CFG_NO_EXTRAS']) + (['NDEBUG'] if n else [])
        jobs.append(dict(src=src, defs=d, std=s, opt=o, san=True, name=f'{prefix}_{bname(b)}'))
    return C.build_many(jobs)

NEGATIVE = [
    # (name, std, extras?, code, must_compile)
    ('smallset-before-c++17', 'c++14', True, '#include <amc/smallset.hpp>\nint main(){ amc::SmallSet<int,4> s; s.insert(1); return (int)s.size(); }', False),
    ('smallset-c++17', 'c++17', True, '#include <amc/smallset.hpp>\nint main(){ amc::SmallSet<int,4> s; s.insert(1); return (int)s.size() - 1; }', True),
    ('pop_back_val-pedantic', 'c++17', False, '#include <amc/vector.hpp>\nint main(){ amc::vector<int> v{1}; return v.pop_back_val(); }', False),
    ('append-pedantic', 'c++17', False, '#include <amc/vector.hpp>\nint main(){ amc::vector<int> v; v.append(3); return (int)v.size(); }', False),
    ('swap2-pedantic', 'c++17', False, '#include <amc/vector.hpp>\n#include <amc/smallvector.hpp>\nint main(){ amc::vector<int> v; amc::SmallVector<int,3> w; v.swap2(w); return 0; }', False),
    ('flatset-data-pedantic', 'c++17', False, '#include <amc/flatset.hpp>\nint main(){ amc::FlatSet<int> s{1}; return *s.data(); }', False),
    ('flatset-steal-pedantic', 'c++17', False, '#include <amc/flatset.hpp>\nint main(){ amc::FlatSet<int> s{1}; auto v = s.steal_vector(); return (int)v.size(); }', False),
    ('flatset-capacity-pedantic', 'c++17', False, '#include <amc/flatset.hpp>\nint main(){ amc::FlatSet<int> s{1}; return (int)s.capacity(); }', False),
    ('extras-on-positive', 'c++11', True, '#include <amc/vector.hpp>\n#include <amc/smallvector.hpp>\n#include <amc/flatset.hpp>\nint main(){ amc::vector<int> v{1}; amc::SmallVector<int,3> w; v.append(2); v.swap2(w); amc::FlatSet<int> s{1}; auto x = s.steal_vector(); return w.pop_back_val() - 0 + (int)x.size() - 1; }', True),
]

def negative_compilations(ctx):
    os.makedirs(os.path.join(C.BUILD, 'c16'), exist_ok=True)
    for name, std, extras, code, must in NEGATIVE:
        path = os.path.join(C.BUILD, 'c16', name + '.cpp')
        with open(path, 'w') as f:
            f.write(('#define AMC_NONSTD_FEATURES\n' if extras else '') + code + '\n')
        p = C.sh(['g++', f'-std={std}', '-I' + C.INCLUDE, '-fsyntax-only', path])
        ok = (p.returncode == 0) == must
        ctx.count('programs')
        ctx.hist('negative_compilations', name, 1 if ok else 0)
        if not ok:
            ctx.violation(f'feature presence: {name} ' + ('must compile but does not' if must else 'must be absent at compile time but compiles'),
                          f'kind=compile\ncommand: g++ -std={std} -I{C.INCLUDE} -fsyntax-only <file>\n' + code + '\n' + p.stderr[-1500:], found_input=True)

def static_probe(ctx):
    """harness/static_probe.cpp: compile-time facts about the containers (noexcept of swap / move construction / move assignment,
    relocatability trait, trivial destructibility, size) for element shapes that exercise the pre-C++17 emulations of the library;
    the table must be the same under every language standard"""
    res = C.build_many([dict(src='static_probe.cpp', defs=[], std=s, opt='-O0', san=False, name='static_probe_' + s.replace('+', 'p')) for s in STDS])
    outs = {}
    for s, (path, log) in zip(STDS, res):
        ctx.count('programs')
        if path is None:
            ctx.violation(f'static probe does not build as -std={s}', f'kind=build static_probe {s}\n' + log[-3000:], found_input=True)
            continue
        outs[s] = C.sh([path]).stdout.splitlines()
    ref_std = 'c++17' if 'c++17' in outs else (sorted(outs)[0] if outs else None)
    bad = []
    for s, lines in outs.items():
        if s == ref_std:
            continue
        for a, b in zip(outs[ref_std], lines):
            if a != b:
                bad.append(f'-std={s}: {b}\n-std={ref_std}: {a}')
        if len(lines) != len(outs[ref_std]):
            bad.append(f'-std={s}: {len(lines)} lines, -std={ref_std}: {len(outs[ref_std])} lines')
    ctx.hist('static_probe_lines', str(len(outs.get(ref_std, []))), 1)
    if bad:
        ctx.violation(f'compile-time facts about the containers depend on the language standard: {len(bad)} line(s), e.g. ' + bad[0].replace('\n', ' / ')[:260],
                      'kind=static-probe\n# harness/static_probe.cpp compiled as each -std; lines that differ from the reference standard\n' + '\n'.join(bad[:60]) + '\n', found_input=True)

def run_corpus(ctx, kind, cfg, src, blds, scripts, extras_needed, cxx17_needed=frozenset()):
    res = build_all(src, cfg.defs(), blds, f'c16{kind}_{cfg.name()}')
    for b, (path, log) in zip(blds, res):
        if path is None:
            ctx.obligation(f'build:{kind}:{cfg.name()}:{bname(b)}', False, log[-500:])
            ctx.violation(f'the {kind} harness does not build as {bname(b)}', f'kind=build {bname(b)}\n' + log[-3000:], found_input=True)
    for si, lines in enumerate(scripts):
        uses_extras = any(l.split()[0] in extras_needed for l in lines)
        uses_17 = any(l.split()[0] in cxx17_needed for l in lines)
        ref = None
        first = True
        for b, (path, log) in zip(blds, res):
            if path is None:
                continue
            if uses_extras and not b[1]:
                continue
            if uses_17 and b[0] in ('c++11', 'c++14'):
                continue
            r = V.run_script(path, cfg.cfgline(), lines, model=first)
            ctx.count('programs')
            ctx.count('evaluations', len(lines))
            if first:
                # the model transcript is the reference for all builds
                if r.model_rc != 0:
                    ctx.violation('model driver failed', r.model_err[-800:], found_input=False); return
                ref = [l.strip() for l in r.model]
                first = False
            impl = [l.partition(' # ')[0].strip() for l in r.impl]
            tails = [l.partition(' # ')[2] for l in r.impl]
            bad = None
            if r.impl_rc != 0:
                bad = (len(impl), f'harness exit {r.impl_rc}: ' + r.impl_err[-500:])
            else:
                for i, (a, m) in enumerate(zip(impl, ref)):
                    am = a; mm = m
                    if kind == 'set':
                        # comparator-call counts are compared only where the model gives them
                        ac, mc = a.rsplit('cmps=', 1), m.rsplit('cmps=', 1)
                        am, mm = ac[0], mc[0]
                        if mc[1] != '-' and ac[1] != mc[1]:
                            bad = (i, f'comparator calls {ac[1]} vs model {mc[1]}'); break
                    if am != mm:
                        bad = (i, 'transcript differs from the reference transcript'); break
                    if 'MISMATCH' in tails[i] or 'faults=-' not in tails[i]:
                        bad = (i, 'oracle: ' + tails[i]); break
                if bad is None and len(impl) != len(ref):
                    bad = (min(len(impl), len(ref)), 'transcript length differs')
            ctx.count('disagreements_checked')
            if bad is not None:
                i, msg = bad
                txt = [cfg.cfgline()] + lines[:i + 1] + [f'# build: {bname(b)}  ({kind} harness, defs {" ".join(cfg.defs())})', f'# at operation {i}: {msg}']
                if i < len(impl): txt.append('# impl : ' + r.impl[i])
                if i < len(ref): txt.append('# model: ' + ref[i])
                ctx.violation(f'{kind} transcript of build {bname(b)} differs: {msg[:150]}', '\n'.join(txt), found_input=True)
                return

def run(ctx):
    ctx.lean(['AmcVerif.Props.C16'], extra_modules=['AmcVerif.Bridge.MemAlgoBridge'])
    blds = builds(ctx.tier)
    rng = random.Random(20240916)       # fixed-seed corpus, as the property states
    nvec = 6 if ctx.tier == 'quick' else 20
    vcfgs = [V.VecCfg('small', 4, 'U8', 'ntr'), V.VecCfg('std', 0, 'U32', 'tr'), V.VecCfg('fixed', 6, 'U8', 'tc')]
    for cfg in vcfgs:
        std_only = [V.gen_history(rng, cfg, 40, ops_filter=lambda op: op not in EXTRAS_OPS) for _ in range(nvec)]
        with_extras = [V.gen_history(rng, cfg, 40) for _ in range(nvec // 2)]
        run_corpus(ctx, 'vec', cfg, 'vec_harness.cpp', blds, std_only + with_extras, EXTRAS_OPS)
    scfgs = [S.SetCfg('flat', cmp='less'), S.SetCfg('flat', cmp='mod', uvec='small', cat='ntr')]
    for cfg in scfgs:
        scripts = [S.gen_history(rng, cfg, 40) for _ in range(nvec)]
        run_corpus(ctx, 'set', cfg, 'set_harness.cpp', blds, scripts, SET_EXTRAS, SET_CXX17)
    # SmallSet exists from C++17 only
    blds17 = [b for b in blds if b[0] in ('c++17', 'c++20')]
    cfg = S.SetCfg('small', 3, 'std', cmp='less')
    run_corpus(ctx, 'set', cfg, 'set_harness.cpp', blds17, [S.gen_history(rng, cfg, 40, dom=8) for _ in range(nvec)], SET_EXTRAS)
    negative_compilations(ctx)
    static_probe(ctx)
    ctx.coverage['builds'] = [bname(b) for b in blds]
    ctx.sample({'build': bname(blds[0]), 'config': vcfgs[0].name()})
    ctx.coverage['rule'] = ('fixed-seed corpus of vector / FlatSet / SmallSet scripts run through harness binaries built as {c++11,14,17,20} x {extras '
                            'on, off} x {NDEBUG, assertions} x {-O0, -O2} (quick tier: 8 builds covering every value of every dimension; SmallSet '
                            'from C++17); every transcript is compared with the single model transcript, hence pairwise; scripts using the non '
                            'standard extras run on the extras-on builds only; negative compilations check that absent features are absent; a table of compile-time facts (noexcept of swap / moves, relocatability, size) for six element shapes x four containers must be identical under the four standards')
    ctx.assume('all builds use g++ 12 with ASan/UBSan; clang is exercised by C17 only')

def replay(ctx, path):
    txt = open(path).read()
    print(txt[:3000])
    if 'kind=static-probe' in txt:
        c2 = type(ctx)(PROPERTY, 'quick'); static_probe(c2)
        return 1 if c2.violations else 0
    if 'kind=compile' in txt or 'kind=build' in txt:
        c2 = type(ctx)(PROPERTY, 'quick'); negative_compilations(c2)
        return 1 if c2.violations else 0
    # re-run the whole (deterministic) corpus: the failing script is part of it
    c2 = type(ctx)(PROPERTY, 'quick')
    run(c2)
    return 1 if c2.violations else 0
