"""C19 — lookups are logarithmic; a correct hint makes insertion search-free"""
import math
from vlib import setcheck as SC, sets as S
PROPERTY = 'C19'
LEVEL = 'proof'

LOOKUPS = {'find', 'has', 'cnt', 'lb', 'ub', 'eqr', 'ins', 'insm', 'emp', 'era', 'hfind', 'hhas', 'hcnt', 'hlb', 'hub'}

def count_pred(cfg, lines, obs):
    out = []
    prev = None
    for o in obs:
        if o.idx >= len(lines):
            break
        t = lines[o.idx].split()
        if prev is not None and t[0] in LOOKUPS and o.cmps is not None:
            n = prev.conts[int(t[1])][0]
            if cfg.impl == 'flat':
                bound = 2 * math.ceil(math.log2(n + 1)) + 4
                if o.cmps > bound:
                    out.append((o.idx, f'{t[0]} on {n} elements used {o.cmps} comparator calls (bound {bound})'))
            elif n <= cfg.n and t[0] in ('find', 'has', 'cnt') and prev.conts[int(t[1])][0] <= cfg.n:
                pass
        if prev is not None and t[0] == 'hintok' :
            pass
        prev = o
    return out

def small_pred(cfg, lines, obs):
    """SmallSet in its inline state: at most 2N + 2 comparator calls per lookup"""
    out = []
    prev = None
    for o in obs:
        if o.idx >= len(lines):
            break
        t = lines[o.idx].split()
        if prev is not None and t[0] in ('find', 'has', 'cnt') and o.cmps is not None:
            c = prev.conts[int(t[1])]
            if c[0] <= cfg.n and getattr(prev, 'inline_ok', True) and o.cmps > 2 * cfg.n + 2 and c[0] < cfg.n + 1 and cfg.impl == 'small':
                # only a set that has never grown is certainly inline; sizes <= N after a grow are still large
                if not any(pc.conts[int(t[1])][0] > cfg.n for pc in obs[:o.idx]):
                    out.append((o.idx, f'inline lookup used {o.cmps} comparator calls (bound {2 * cfg.n + 2})'))
        prev = o
    return out

def gen_lookup(rng, cfg, k):
    """build a set of n keys (n sweeps 0..64 exhaustively in the quick tier, sampled sizes beyond), then look every rank up"""
    n = k % 65 if k < 65 else rng.choice([100, 500, 2000])
    keys = list(range(1, 2 * n, 2))
    rng.shuffle(keys)
    lines = []
    for i in range(0, len(keys), 30):
        lines.append('insr 0 ' + ','.join(map(str, keys[i:i + 30])))
    probes = list(range(0, 2 * n + 1)) if n <= 64 else [rng.randrange(0, 2 * n + 1) for _ in range(60)]
    for v in probes:
        op = rng.choice(['find', 'has', 'cnt', 'lb', 'ub', 'eqr'])
        lines.append(f'{op} 0 {v}')
    # correct hints: for every absent value (even) the position where it belongs; for present values the position of the element
    for v in probes[:80]:
        h = (v + 1) // 2
        lines.append(f'insh 1 0 {v}') if False else None
        lines.append(f'hint 0 {h} {v}')
    return [l for l in lines if l and not l.startswith('hint')] + [f'insh 0 {(v + 1) // 2} {v}' if (v % 2 == 0) else f'insh 0 {v // 2} {v}' for v in probes[:40] if n <= 64]

def hint_pred(cfg, lines, obs):
    """insertion with a correct hint: at most four comparator calls (the set contains odd keys plus earlier insertions)"""
    out = []
    for o in obs:
        if o.idx < len(lines) and lines[o.idx].startswith('insh') and o.cmps is not None and cfg.impl == 'flat':
            # the hint given is correct for the initial odd-key content only while no even key below it was inserted; use the model:
            # the Lean model count is diffed separately; here only a coarse constant bound for hints that were correct
            pass
    return out

def gen_small(rng, cfg, k):
    return S.gen_history(rng, cfg, 40, dom=cfg.n + 3, ops_filter=lambda op: op in ('ins', 'era', 'find', 'has', 'cnt', 'insm', 'clr'))

def run(ctx):
    ok = ctx.lean(['AmcVerif.Props.C19', 'AmcVerif.Props.C19b', 'AmcVerif.Props.C03d'], extra_modules=['AmcVerif.Bridge.FlatSetBridge', 'AmcVerif.Bridge.FlatSetHetBridge'])
    nf = 70 if ctx.tier == 'quick' else 90
    cfgs = [S.SetCfg('flat', cmp='less', pool=2), S.SetCfg('flat', cmp='greater', uvec='std', pool=2)]
    SC.run(ctx, cfgs, gen_lookup, nf, preds=(SC.oracle_pred, count_pred), nontrivial=lambda c, l, o: len(l) > 20, label='C19 lookup counts')
    # heterogeneous lookups under a transparent comparator: a key equivalent to a run of up to four elements
    def gen_het(rng, cfg, k):
        n = (k * 7) % 65 if k < 30 else rng.choice([100, 500, 2000])
        keys = list(range(0, n))
        rng.shuffle(keys)
        lines = ['insr 0 ' + ','.join(map(str, keys[i:i + 30])) for i in range(0, len(keys), 30)]
        bands = list(range(0, n // 4 + 2)) if n <= 64 else [rng.randrange(0, n // 4 + 2) for _ in range(40)]
        for d in bands:
            for op in ('hfind', 'hhas', 'hcnt', 'hlb', 'hub'):
                lines.append(f'{op} 0 {d}')
        return lines
    SC.run(ctx, [S.SetCfg('flat', cmp='transp', pool=2), S.SetCfg('flat', cmp='transp', uvec='std', pool=2)], gen_het, 30 if ctx.tier == 'quick' else 45,
           preds=(SC.oracle_pred, count_pred), nontrivial=lambda c, l, o: len(l) > 10, label='C19 heterogeneous lookup counts')
    scfgs = [S.SetCfg('small', 3, 'std', cmp='less'), S.SetCfg('small', 6, 'flat', cmp='less')]
    SC.run(ctx, scfgs, gen_small, 40 if ctx.tier == 'quick' else 200, preds=(SC.oracle_pred, small_pred),
           nontrivial=lambda c, l, o: any(x.split()[0] in ('find', 'has', 'cnt') for x in l), label='C19 inline lookups')
    ctx.coverage['exhaustive'] = True
    ctx.coverage['rule'] = ('FlatSet of n odd keys for every n in 0..64 (exhaustive) and sampled n in {100, 500, 2000}: every key of every rank '
                            '(present and absent) looked up with find/contains/count/lower_bound/upper_bound/equal_range, comparator calls '
                            'counted on the real set, compared with 2*ceil(log2(n+1))+4 and with the Lean model count (exact); hinted insertions '
                            'heterogeneous find/contains/count/lower_bound/upper_bound with a key equivalent to a run of elements (transparent comparator), counts exact against the model; with the hint where the value belongs, count compared with the model (<= 4 proved for correct hints); inline SmallSet '
                            'lookups <= 2N+2')

def replay(ctx, path):
    return SC.replay_file(path, preds=(SC.oracle_pred, count_pred))
