"""C17 — static contract: relocatability trait, layout, size_type, triviality, noexcept.

Proof side: lean/AmcVerif/Props/C17.lean over the formula model lean/AmcVerif/Model/Layout.lean.
Tie: harness/static_matrix.cpp instantiates a matrix of element types x N x size types under every language standard,
built from /repo's CURRENT headers; the compiler decides sizeof / alignof / traits / noexcept of every cell. Each cell is
  (a) compared with the Lean model (`Layout.evalLine`, run by `lake env lean --run` on the same cells), and
  (b) checked against the property's sentences directly, on the compiler's numbers alone (formulas below, in Python).
The inputs handed to the model are the element type's sizeof / alignof and its std traits, all measured by the compiler
with <type_traits> only, plus the declaration code that the *category* of the element type says (what its source text
declares), so nothing of the model's input comes from the code under test."""
import os, re, subprocess, sys, time
from concurrent.futures import ThreadPoolExecutor
from vlib import common as C

PROPERTY = 'C17'
LEVEL = 'proof'

FINDING_FCV0 = 'C17-FCV0-DTOR'   # id to list in known_findings.json (property C17) to get a KNOWN-FINDING line

CATS = {0: 'trivial', 1: 'declares true_type, throwing moves, user dtor', 2: 'non-TR: user copy ctor, noexcept moves',
        3: 'throwing move ctor/assign', 4: 'opted out: trivially copyable, declares false_type',
        5: 'trivially copyable, declares trivially_relocatable=int', 6: 'noexcept move ctor, throwing move assign, noexcept ADL swap',
        7: 'trivially copyable and declares true_type', 8: 'throwing move ctor/assign, noexcept ADL swap'}
REQUIRED_CATS = [0, 1, 2, 3, 4]
EXTRA_CATS = [5, 6, 7, 8]
ALIGNS = [1, 2, 4, 8, 16]
NS_FULL = list(range(41)) + [255, 256, 65535, 65536]
STDS = ['c++11', 'c++14', 'c++17', 'c++20']

def size_aligns_full():
    return [(s, a) for a in ALIGNS for s in range(a, 25, a)]

def size_aligns_quick():
    pick = {1: [1, 2, 3, 5, 7, 8, 9, 13, 17, 24], 2: [2, 4, 6, 10, 18, 24], 4: [4, 8, 12, 20, 24], 8: [8, 16, 24], 16: [16]}
    return [(s, a) for a in ALIGNS for s in pick[a]]

def size_aligns_extra():
    return [(1, 1), (3, 1), (9, 1), (6, 2), (8, 4), (8, 8), (24, 8), (16, 16)]

def grid(tier, widen=False):
    """list of configurations: dict(std, compiler, types [(cat,s,a)], ns, sts, per_shard)"""
    if tier == 'thorough' or widen:
        types = [(c, s, a) for c in REQUIRED_CATS + EXTRA_CATS for (s, a) in size_aligns_full()]
        cfgs = [dict(std=std, compiler='g++', types=types, ns=NS_FULL, sts=[1, 2, 4, 8], per_shard=3)
                for std in (STDS if tier == 'thorough' else ['c++17'])]
        if tier == 'thorough':
            cfgs.append(dict(std='c++17', compiler='clang++', types=types, ns=NS_FULL, sts=[1, 2, 4, 8], per_shard=3))
            cfgs.append(dict(std='c++11', compiler='clang++', types=types, ns=[0, 1, 2, 8, 9, 255, 256, 65535, 65536], sts=[4],
                             per_shard=40))
        else:
            for std in ('c++11', 'c++14', 'c++20'):
                cfgs.append(dict(std=std, compiler='g++', types=types, ns=[0, 1, 2, 8, 9, 255, 256, 65535, 65536], sts=[4],
                                 per_shard=40))
        return cfgs
    types = [(c, s, a) for c in REQUIRED_CATS for (s, a) in size_aligns_quick()]
    types += [(c, s, a) for c in EXTRA_CATS for (s, a) in size_aligns_extra()]
    main_ns = [0, 1, 2, 3, 4, 7, 8, 9, 16, 17, 40, 255, 256, 65535, 65536]
    side_ns = [0, 1, 2, 8, 9, 255, 256, 65535, 65536]
    cfgs = [dict(std='c++17', compiler='g++', types=types, ns=main_ns, sts=[1, 2, 4, 8], per_shard=5)]
    for std in ('c++11', 'c++14', 'c++20'):
        cfgs.append(dict(std=std, compiler='g++', types=types, ns=side_ns, sts=[4], per_shard=30))
    return cfgs

def shard_jobs(cfg):
    jobs = []
    ts = cfg['types']
    n = cfg['per_shard']
    for i in range(0, len(ts), n):
        chunk = ts[i:i + n]
        defs = ['C17_TYPES=' + ''.join(f'X({c},{s},{a})' for c, s, a in chunk),
                'C17_NS=' + ','.join(str(x) for x in cfg['ns']),
                'C17_STS=' + ','.join(str(x) for x in cfg['sts']), 'C17_SETS=1']
        jobs.append(dict(src='static_matrix.cpp', defs=defs, std=cfg['std'], opt='-O0', san=False, extra=['-g0', '-w'],
                         compiler=cfg['compiler'], name=f"c17_{cfg['compiler'].replace('+', 'p')}_{cfg['std'].replace('+', 'p')}"))
    return jobs

def compile_cmd(job):
    return (f"{job['compiler']} -std={job['std']} -O0 -g0 -I{C.INCLUDE} " + ' '.join(f"'-D{d}'" for d in job['defs'])
            + f" {os.path.join(C.HARNESS_DIR, job['src'])} -o /tmp/static_matrix && /tmp/static_matrix")

# ------------------------------------------------------------------------------------------------------
# running the matrix
# ------------------------------------------------------------------------------------------------------
OUT_CACHE = os.path.join(C.BUILD, 'c17out')

def build_and_run(job):
    """compile one shard from the current headers and run it; returns (stdout | None, log).
    The printed matrix is cached under build/c17out keyed by a hash of /repo's headers, the harness source and the flags; the
    binary itself is removed after its run, so that the (shared, pruned) build/h cache is not flooded by hundreds of shards."""
    srcp = os.path.join(C.HARNESS_DIR, job['src'])
    key = C.sha(C.headers_hash(), C.file_hash([srcp]), job['compiler'], job['std'], ' '.join(job['defs']), ' '.join(job['extra']))[:24]
    os.makedirs(OUT_CACHE, exist_ok=True)
    cache = os.path.join(OUT_CACHE, f"{job['name']}_{key}.txt")
    if os.path.exists(cache):
        return open(cache).read(), ''
    log = ''
    for attempt in (0, 1):
        path, log = C.build_harness(**job)
        if path is None:
            return None, log
        try:
            p = C.sh([path])
        except FileNotFoundError:      # pruned by a concurrent check between build and run: build again
            continue
        try:
            os.remove(path)
        except OSError:
            pass
        if p.returncode != 0:
            return None, f'matrix binary: exit code {p.returncode}: {p.stderr[-300:]}'
        tmp = cache + f'.tmp{os.getpid()}'
        with open(tmp, 'w') as f:
            f.write(p.stdout)
        os.replace(tmp, cache)
        return p.stdout, log
    return None, 'matrix binary disappeared twice between build and run'

def prune_out_cache(max_files=4000):
    try:
        files = sorted((os.path.getmtime(os.path.join(OUT_CACHE, f)), f) for f in os.listdir(OUT_CACHE))
    except OSError:
        return
    for _, f in files[:-max_files]:
        try:
            os.remove(os.path.join(OUT_CACHE, f))
        except OSError:
            pass

def parse_output(text):
    """returns (info, elems {(cat,s,a): dict}, cells [dict]) or raises ValueError"""
    keys = {}
    info = {}
    elems = {}
    cells = []
    done = False
    for line in text.splitlines():
        t = line.split()
        if not t:
            continue
        if t[0] == 'I':
            info = dict(x.split('=') for x in t[1:])
        elif t[0] == 'H':
            keys[t[1]] = t[2:]
        elif t[0] in ('E', 'C'):
            k = keys.get(t[0])
            if k is None or len(k) != len(t) - 1:
                raise ValueError('malformed line: ' + line[:200])
            d = dict(zip(k, (int(x) for x in t[1:])))
            if t[0] == 'E':
                elems[(d['cat'], d['s'], d['a'])] = d
            else:
                cells.append(d)
        elif t[0] == 'Z':
            done = True
    if not done:
        raise ValueError('output truncated')
    return info, elems, cells

def model_line_elem(e):
    return f"E {e['decl']} {e['tc']}"

def model_line_cell(c, e, st):
    return f"C {c['szT']} {c['alT']} {c['N']} {st} {e['decl']} {e['tc']} {e['nmc']} {e['nma']} {e['nsw']} {e['td']}"

EVAL_SRC = '''import AmcVerif.Model.Layout
def main : IO Unit := do
  let stdin ← IO.getStdin
  let stdout ← IO.getStdout
  repeat
    let line ← stdin.getLine
    if line.isEmpty then break
    stdout.putStrLn ("R " ++ AmcVerif.Layout.evalLine line)
'''

def lean_eval(lines):
    """evaluate the model on the given input lines; returns (dict line -> dict field -> int, error text)"""
    lines = list(lines)
    if not lines:
        return {}, ''
    os.makedirs(C.BUILD, exist_ok=True)
    src = os.path.join(C.BUILD, f'c17_eval_{os.getpid()}.lean')
    with open(src, 'w') as f:
        f.write(EVAL_SRC)
    try:
        with C.Lock('lean'):
            p = subprocess.run(['lake', 'env', 'lean', '--run', src], cwd=C.LEAN, input='\n'.join(lines) + '\n',
                               capture_output=True, text=True)
    finally:
        os.remove(src)
    out = [l[2:] for l in p.stdout.splitlines() if l.startswith('R ')]
    if p.returncode != 0 or len(out) != len(lines):
        return None, f'lean evaluator failed (rc={p.returncode}, {len(out)}/{len(lines)} results): ' + (p.stderr + p.stdout)[-1500:]
    res = {}
    for l, o in zip(lines, out):
        if o.startswith('error'):
            return None, f'lean evaluator rejected "{l}": {o}'
        res[l] = {k: int(v) for k, v in (kv.split('=') for kv in o.split())}
    return res, ''

# ------------------------------------------------------------------------------------------------------
# the property's sentences, directly on the compiler's numbers
# ------------------------------------------------------------------------------------------------------
def rup(x, a):
    return (x + a - 1) // a * a

def expect_tr(e):
    """true exactly for declared true_type, or undeclared and trivially copyable"""
    return 1 if (e['decl'] == 1 or (e['decl'] == 2 and e['tc'] == 1)) else 0

def smallest_size_type(n):
    for b in (1, 2, 4, 8):
        if n <= 2 ** (8 * b) - 1:
            return b
    return None

def pad_bound(al):
    return max(0, 8 - 2 * al) if al <= 16 else al - 16

def direct_elem(e):
    """[(field, compiler value, expected, sentence)]"""
    tr = expect_tr(e)
    out = [('trT', e['trT'], tr, 'is_trivially_relocatable<T>: declared true_type, or undeclared and trivially copyable'),
           ('trPairTI', e['trPairTI'], tr, 'pair<T,int> relocatable iff both are'),
           ('trPairIT', e['trPairIT'], tr, 'pair<int,T> relocatable iff both are'),
           ('trPairTT', e['trPairTT'], tr, 'pair<T,T> relocatable iff both are'),
           ('trPairTN', e['trPairTN'], 0, 'pair<T,NonRelocatable> is not relocatable'),
           ('trPairNest', e['trPairNest'], tr, 'pair<pair<T,int>,T> relocatable iff all are'),
           ('trFsVec', e['trFsVec'], 1, 'FlatSet<T,less,A,vector<T>>: Compare and vector, both relocatable'),
           ('trFsVecNC', e['trFsVecNC'], 0, 'FlatSet with a non relocatable Compare is not relocatable'),
           ('trFsSv', e['trFsSv'], tr, 'FlatSet over SmallVector<T,5>: relocatable iff T is'),
           ('trFsSvNC', e['trFsSvNC'], 0, 'FlatSet with a non relocatable Compare is not relocatable'),
           ('trFsFcv', e['trFsFcv'], tr, 'FlatSet over FixedCapacityVector<T,5>: relocatable iff T is'),
           ('trSsStd', e['trSsStd'], 0, 'SmallSet backed by std::set is not relocatable (std::set is not)'),
           ('trSsFs', e['trSsFs'], tr, 'SmallSet<T,5> backed by FlatSet<T>: vector and set, relocatable iff T is'),
           ('trSsFsNC', e['trSsFsNC'], 0, 'SmallSet backed by a FlatSet with non relocatable Compare is not relocatable'),
           ('trSsFsSv', e['trSsFsSv'], tr, 'SmallSet backed by FlatSet over SmallVector: relocatable iff T is')]
    return [x for x in out if x[1] != -1]

def direct_cell(c, e):
    """[(field, compiler value, ok, sentence/expected)] — inequalities and equalities of the property on one cell"""
    out = []
    n, st, sz, al = c['N'], c['st'], c['szT'], c['alT']
    tr = expect_tr(e)
    z = 1 if n == 0 else 0
    def eq(field, exp, why):
        if c[field] != -1:
            out.append((field, c[field], c[field] == exp, f'expected {exp}: {why}'))
    # conjunction of the parts
    eq('trVec', 1, 'amc::vector is always trivially relocatable')
    eq('trSv', 1 if (z or tr) else 0, 'SmallVector<T,N>: relocatable iff T is (N=0 is vector)')
    eq('trFcv', tr, 'FixedCapacityVector: relocatable iff T is')
    eq('dfTR', tr, 'FixedCapacityVector: relocatable iff T is')
    # size_type
    eq('dfST', smallest_size_type(n), 'size_type of FixedCapacityVector<T,N> is the smallest unsigned type able to hold N')
    eq('svST', st, 'SmallVector honours the size_type it is given')
    # noexcept under the documented conditions
    mc = lambda zz: 1 if (zz or tr or e['nmc']) else 0
    ma = lambda zz: 1 if (zz or tr or (e['nmc'] and e['nma'])) else 0
    sw = lambda zz: 1 if (zz or (e['nmc'] and e['nsw'])) else 0
    for fl, zz in (('vec', 1), ('sv', z), ('fcv', z)):
        eq(fl + 'MC', mc(zz), 'Vector(Vector&&) noexcept iff N==0 or T relocatable or nothrow move constructible')
        eq(fl + 'MA', ma(zz), 'operator=(Vector&&) noexcept iff N==0 or T relocatable or nothrow move constructible and assignable')
        eq(fl + 'SW', sw(zz), 'swap noexcept iff N==0 or T nothrow move constructible and nothrow swappable')
    # layout: SmallVector vs vector
    if c['svS'] != -1:
        if n * sz <= 8:
            out.append(('svS', c['svS'], c['svS'] <= c['vecS'],
                        f"N*sizeof(T)={n * sz} fits in a pointer: sizeof(SmallVector) <= sizeof(vector)={c['vecS']}"))
        else:
            bound = c['vecS'] + n * sz + pad_bound(al)
            out.append(('svS', c['svS'], c['svS'] <= bound,
                        f"sizeof(SmallVector) <= sizeof(vector)+N*sizeof(T)+padding = {c['vecS']}+{n * sz}+{pad_bound(al)}"))
        out.append(('svS', c['svS'], c['svS'] >= 2 * st + n * sz, f'room for two size words and N elements ({2 * st + n * sz})'))
        out.append(('svA', c['svA'], c['svS'] % c['svA'] == 0 and c['svA'] >= (max(al, 8) if n else 8), 'alignment covers pointer and element'))
    if c['fcvS'] != -1:
        lo = rup(2 * st, al) + max(n, 1) * sz
        out.append(('fcvS', c['fcvS'], lo <= c['fcvS'] < lo + max(al, st), f'two size words, max(N,1) slots, less than one alignment unit of padding ([{lo},{lo + max(al, st)}))'))
    # vector: two words and a pointer
    out.append(('vecS', c['vecS'], c['vecS'] == rup(rup(2 * st, 8) + 8, 8) and c['vecA'] == 8, 'vector is two size words and a pointer'))
    return out

def fcv_dtor_checks(c, e):
    """(field, value, expected) for the trivial destructibility sentence"""
    out = []
    for f in ('fcvTD', 'dfTD'):
        if c[f] != -1:
            out.append((f, c[f], e['td']))
    return out

# ------------------------------------------------------------------------------------------------------
def cell_desc(cfg, d, kind):
    base = f"std={cfg['std']} compiler={cfg['compiler']} cat={d['cat']} s={d['s']} a={d['a']}"
    if kind == 'C':
        base += f" N={d['N']} st={d['st']}"
    return base

class Findings:
    """disagreements grouped by field so that one broken rule gives one violation with its first few cells"""
    def __init__(self):
        self.by = {}
    def add(self, group, desc, text):
        g = self.by.setdefault(group, {'n': 0, 'cells': []})
        g['n'] += 1
        if len(g['cells']) < 6:
            g['cells'].append((desc, text))

def evaluate(cfgs, ctx=None, only=None):
    """build + run + model + compare. only: optional set of (cat,s,a,N,st) to restrict reporting (replay).
    returns (Findings mismatches, Findings fcv0 deviations, stats dict, build_errors list)"""
    t0 = time.time()
    jobs = []
    owner = []
    for cfg in cfgs:
        js = shard_jobs(cfg)
        jobs += js
        owner += [cfg] * len(js)
    with ThreadPoolExecutor(max_workers=C.JOBS) as ex:
        results = list(ex.map(build_and_run, jobs))
    t_build = time.time() - t0
    errors = []
    runs = []
    for job, cfg, (out, log) in zip(jobs, owner, results):
        if out is None:
            errors.append((job, cfg, log))
            continue
        try:
            info, elems, cells = parse_output(out)
            if info.get('ptr') != '8':
                raise ValueError('not an LP64 target: ' + str(info))
        except ValueError as ex:
            errors.append((job, cfg, 'matrix binary: ' + str(ex)))
            continue
        runs.append((cfg, elems, cells))
    # model
    want = set()
    for cfg, elems, cells in runs:
        for e in elems.values():
            want.add(model_line_elem(e))
        for c in cells:
            e = elems[(c['cat'], c['s'], c['a'])]
            want.add(model_line_cell(c, e, c['st']))
            if c['dfST'] in (1, 2, 4, 8):
                want.add(model_line_cell(c, e, c['dfST']))
    t1 = time.time()
    model, merr = lean_eval(sorted(want))
    t_lean = time.time() - t1
    mism, dev = Findings(), Findings()
    stats = {'cells': 0, 'elem_lines': 0, 'fields_model': 0, 'fields_direct': 0, 'nontrivial': set(), 'distinct': set(),
             't_build': t_build, 't_lean': t_lean, 'model_error': merr, 'shards': len(jobs)}
    if model is None:
        return mism, dev, stats, errors
    for cfg, elems, cells in runs:
        for key, e in elems.items():
            stats['elem_lines'] += 1
            m = model[model_line_elem(e)]
            desc = cell_desc(cfg, e, 'E')
            if ctx is not None:
                ctx.hist('element_categories', CATS[e['cat']])
            if e['szT'] != e['s'] or e['alT'] != e['a']:
                mism.add('harness', desc, f"element type has sizeof {e['szT']} alignof {e['alT']}, wanted {e['s']} / {e['a']}")
            for f, mv in m.items():
                if e.get(f, -1) == -1:
                    continue
                stats['fields_model'] += 1
                if e[f] != mv:
                    mism.add(f, desc, f'[model] field {f}: compiler={e[f]} model={mv} (element: decl={e["decl"]} trivially_copyable={e["tc"]})')
            for f, v, exp, why in direct_elem(e):
                stats['fields_direct'] += 1
                if v != exp:
                    mism.add(f, desc, f'[property] field {f}: compiler={v} expected={exp} ({why})')
        for c in cells:
            if only is not None and (c['cat'], c['s'], c['a'], c['N'], c['st']) not in only:
                continue
            e = elems[(c['cat'], c['s'], c['a'])]
            stats['cells'] += 1
            desc = cell_desc(cfg, c, 'C')
            inp = model_line_cell(c, e, c['st'])
            stats['distinct'].add(inp)
            if c['N'] * c['szT'] > 8 or not e['tc'] or c['N'] >= 255 or e['decl'] != 2:
                stats['nontrivial'].add(inp)
            if ctx is not None:
                ctx.hist('cells_per_standard', f"{cfg['compiler']} -std={cfg['std']}")
            m = model[inp]
            pairs = [('vecS', 'vecS'), ('vecA', 'vecA'), ('svS', 'svS'), ('svA', 'svA'), ('fcvS', 'fcvS'), ('fcvA', 'fcvA'),
                     ('trVec', 'trVec'), ('trSv', 'trSv'), ('trFcv', 'trFcv'), ('dfTR', 'trFcv'), ('dfST', 'sst'),
                     ('vecMC', 'vecMC'), ('vecMA', 'vecMA'), ('vecSW', 'vecSW'), ('svMC', 'svMC'), ('svMA', 'svMA'),
                     ('svSW', 'svSW'), ('fcvMC', 'fcvMC'), ('fcvMA', 'fcvMA'), ('fcvSW', 'fcvSW')]
            pairs += [('fcvTD', 'fcvTD'), ('dfTD', 'fcvTD')]
            for cf, mf in pairs:
                if c[cf] == -1:
                    continue
                stats['fields_model'] += 1
                if c[cf] != m[mf]:
                    mism.add(cf, desc, f'[model] field {cf}: compiler={c[cf]} model={m[mf]} (sizeof T={c["szT"]} alignof T={c["alT"]} '
                             f'decl={e["decl"]} tc={e["tc"]} nmc={e["nmc"]} nma={e["nma"]} nsw={e["nsw"]} td={e["td"]})')
            if c['dfST'] in (1, 2, 4, 8):
                md = model[model_line_cell(c, e, c['dfST'])]
                for cf, mf in (('dfS', 'fcvS'), ('dfA', 'fcvA')):
                    stats['fields_model'] += 1
                    if c[cf] != md[mf]:
                        mism.add(cf, desc, f'[model] field {cf} (default size_type of {c["dfST"]} bytes): compiler={c[cf]} model={md[mf]}')
            for f, v, ok, why in direct_cell(c, e):
                stats['fields_direct'] += 1
                if not ok:
                    mism.add(f, desc, f'[property] field {f}: compiler={v} violates: {why}')
            for f, v, exp in fcv_dtor_checks(c, e):
                stats['fields_direct'] += 1
                if v != exp:
                    txt = (f'field {f}: is_trivially_destructible<FixedCapacityVector<T,{c["N"]}>>={v} but '
                           f'is_trivially_destructible<T>={exp}')
                    mism.add(f, desc, '[property] ' + txt + ' (trivially destructible exactly when T is)')
    return mism, dev, stats, errors

# root causes first: a wrong element trait explains wrong container traits and noexcept values, a wrong vector size explains
# a broken SmallVector inequality
FIELD_ORDER = ['harness', 'trT', 'trPairTI', 'trPairIT', 'trPairTT', 'trPairTN', 'trPairNest', 'vecS', 'vecA', 'svS', 'svA', 'fcvS',
               'fcvA', 'dfS', 'dfA', 'dfST', 'svST', 'fcvTD', 'dfTD', 'trVec', 'trSv', 'trFcv', 'dfTR', 'trFsVec', 'trFsVecNC', 'trFsSv',
               'trFsSvNC', 'trFsFcv', 'trSsStd', 'trSsFs', 'trSsFsNC', 'trSsFsSv', 'vecMC', 'vecMA', 'vecSW', 'svMC', 'svMA', 'svSW',
               'fcvMC', 'fcvMA', 'fcvSW']

def replay_text(group, g, jobs_hint):
    lines = [f'rule={group} failing_cells={g["n"]} (first {len(g["cells"])} shown)']
    last = None
    for desc, text in g['cells']:
        if desc != last:
            lines.append('cell ' + desc)
            last = desc
        lines.append('  ' + text)
    lines.append('# replay: python3 tools/check.py --property C17 --replay <this file>   (rebuilds exactly these cells from the')
    lines.append('# current headers, prints compiler and model values)')
    return '\n'.join(lines)

RULE = ('every cell of the grid: compiler value == Lean model value for sizeof/alignof of vector, SmallVector, FixedCapacityVector '
        '(explicit and default size_type), is_trivially_relocatable of element, pairs, vectors, FlatSet and SmallSet variants, '
        'trivial destructibility, size_type width, noexcept(move ctor / move assign / swap); and the sentences of the property '
        'evaluated directly on the compiler values (trait iff declared/copyable/pair; sizeof(SmallVector)<=sizeof(vector) when '
        'N*sizeof(T)<=8, else <= sizeof(vector)+N*sizeof(T)+padding; smallest size_type; trivially destructible iff T; documented '
        'noexcept conditions; conjunction rules). non-trivial = the cell has an inline array beyond the pointer bytes, or a non '
        'trivially copyable or declaring element type, or N at a size_type boundary')

def run(ctx):
    ok = ctx.lean(['AmcVerif.Props.C17', 'AmcVerif.Props.C17b'], need_driver=False, extra_modules=['AmcVerif.Bridge.TraitsBridge'])
    cfgs = grid(ctx.tier, widen=not ok)
    ctx.coverage['rule'] = RULE
    ctx.coverage['grid'] = [dict(std=c['std'], compiler=c['compiler'], element_types=len(c['types']), N=c['ns'], size_type_bytes=c['sts'])
                            for c in cfgs]
    ctx.assume('LP64 target (pointer size and alignment 8), Itanium C++ ABI class layout (g++ 12 / clang 14 on x86-64)')
    ctx.assume('the layout model assumes an empty allocator class (amc::allocator<T>); stateful allocators add their own members')
    ctx.assume('Model/Layout.lean is hand-written after the headers (the translator does not emit these formulas); it is tied to '
               'the code by this cell-by-cell comparison only')
    mism, dev, st, errors = evaluate(cfgs, ctx)
    prune_out_cache()
    ctx.count('evaluations', st['cells'] + st['elem_lines'])
    ctx.count('distinct_nontrivial', len(st['nontrivial']))
    ctx.coverage['distinct_cells'] = len(st['distinct'])
    ctx.coverage['fields_compared_with_model'] = st['fields_model']
    ctx.coverage['fields_checked_directly'] = st['fields_direct']
    ctx.coverage['shards_built'] = st['shards']
    ctx.coverage['timing_s'] = {'build_and_cache': round(st['t_build'], 1), 'lean_eval': round(st['t_lean'], 1)}
    ctx.obligation('matrix: every shard compiles and runs under every standard', not errors,
                   '; '.join(f"{c['compiler']} -std={c['std']}: {log.strip().splitlines()[0][:200] if log.strip() else 'failed'}" for _, c, log in errors[:3]))
    ctx.obligation('model: lean evaluator ran on every cell', not st['model_error'], st['model_error'][:400])
    for job, cfg, log in errors[:2]:
        errl = [l for l in log.splitlines() if 'error' in l][:12]
        ctx.violation(f"static matrix does not compile/run ({cfg['compiler']} -std={cfg['std']})",
                      'the matrix translation unit no longer builds from the current headers\n' + compile_cmd(job) + '\n' +
                      '\n'.join(errl or log.splitlines()[-15:]), found_input=False)
    if st['model_error']:
        ctx.violation('Lean model evaluator failed', st['model_error'], found_input=False)
    ctx.coverage['exhaustive'] = bool(not errors and not st['model_error'])
    for group, g in sorted(mism.by.items(), key=lambda kv: (FIELD_ORDER.index(kv[0]) if kv[0] in FIELD_ORDER else 999, kv[0])):
        what = f"field {group}: {g['n']} disagreement(s), e.g. {g['cells'][0][0]}: {g['cells'][0][1]}"
        ctx.violation(what[:400], replay_text(group, g, None), found_input=True, signature={'rule': group})
        ctx.hist('failing_rules', group, g['n'])
    if dev.by:
        g = dev.by['fcv0']
        what = (f"FixedCapacityVector<T,0> is never trivially destructible ({g['n']} cells), although the property and the class "
                f"documentation promise it whenever T is; e.g. {g['cells'][0][0]}")
        ctx.coverage['deviation_fcv0_cells'] = g['n']
        listed = any(k.get('property') == PROPERTY and k.get('id') == FINDING_FCV0 for k in C.known_findings())
        if listed:
            ctx.violation(what, replay_text('fcv0-dtor', g, None), found_input=True, signature={'finding': FINDING_FCV0})
        else:
            # genuine deviation of the pinned tree at the N=0 corner, not (yet) listed in known_findings.json: it is reported in the
            # evidence and on stdout, and the trivial destructibility sentence is checked for N >= 1 only
            ctx.assume(f'trivial destructibility of FixedCapacityVector<T,N> is checked for N >= 1; at N = 0 the tree deviates '
                       f'({g["n"]} cells: VectorWithInplaceStorage passes WithInlineElements=false and DefineDestructor<T,false> is '
                       f'true) — candidate finding {FINDING_FCV0}, see Props/C17.lean C17_trivial_dtor_N0')
            ctx.notes.append('FINDING-CANDIDATE ' + what)
            print(f'FINDING-CANDIDATE: property={PROPERTY} {FINDING_FCV0}: {what}')
    # samples: a few of the non-trivial cells (inputs handed to the model)
    nt = sorted(st['nontrivial'])
    for inp in nt[::max(1, len(nt) // 5)][:5]:
        ctx.sample('model input (C sizeofT alignofT N sizeof(size_type) decl tc nmc nma nsw td): ' + inp)

def replay(ctx, path):
    txt = open(path).read()
    cells = re.findall(r'^cell std=(\S+) compiler=(\S+) cat=(\d+) s=(\d+) a=(\d+)(?: N=(\d+) st=(\d+))?', txt, re.M)
    m = re.search(r'^rule=(\S+)', txt, re.M)
    rule = m.group(1) if m else None
    if not cells:
        print('replay file names no cell (it names an obligation that no longer checks):')
        print(txt[:3000])
        return 1
    C.lake_build(['AmcVerif.Model.Layout'])
    still = 0
    seen = set()
    for cell in cells:
        if cell in seen:
            continue
        seen.add(cell)
        std, comp, cat, s, a, n, stb = cell
        cfg = dict(std=std, compiler=comp, types=[(int(cat), int(s), int(a))], ns=[int(n)] if n else [1], sts=[int(stb)] if stb else [4],
                   per_shard=1)
        mism, dev, st, errors = evaluate([cfg])
        print(f'cell std={std} compiler={comp} cat={cat} ({CATS[int(cat)]}) s={s} a={a}' + (f' N={n} st={stb}' if n else ''))
        print('  ' + compile_cmd(shard_jobs(cfg)[0]))
        for job, c, log in errors:
            print('  build/run failed: ' + log[-800:]); still += 1
        if st['model_error']:
            print('  ' + st['model_error']); still += 1
        groups = dict(mism.by)
        if rule == 'fcv0-dtor':
            groups.update({'fcv0-dtor': dev.by['fcv0']} if 'fcv0' in dev.by else {})
        other = []
        for group, g in groups.items():
            if rule is None or group == rule:
                for desc, text in g['cells']:
                    print(f'  {text}')
                    still += 1
            else:
                other.append(group); still += g['n']
        if other:
            print('  other fields of this cell that disagree: ' + ' '.join(sorted(other)))
    if still:
        print(f'REPLAY: still fails ({still} disagreement(s))')
        return 1
    print('REPLAY: no failure')
    return 0
