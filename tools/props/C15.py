"""C15 — amc:: memory algorithms equal the standard ones, with clean-up on throw.

proof  : lean/AmcVerif/Props/C15.lean over lean/AmcVerif/Model/MemAlgo.lean (arms of memory.hpp, the standard's
         specification, the #if ladders and ImplModeFactory dispatch).
tie    : harness/memalgo_harness.cpp compiled from /repo's CURRENT headers under -std=c++11/14/17/20 (-Wall
         -Werror=return-type, ASan+UBSan), one binary per (standard, value category); every case
         algorithm x length 0..maxN x iterator category x value category x throw index is run on the real code, evaluated on
         the model (a generated Lean `main`, interpreted with `lake env lean --run`) and the canonical lines are diffed;
         the harness's own comparison with the standard library and the live-object ledgers are checked as well."""
import os, re, shlex, subprocess, sys, time
from concurrent.futures import ThreadPoolExecutor
from vlib import common as C

PROPERTY = 'C15'
LEVEL = 'proof'

STDS = ['c++11', 'c++14', 'c++17', 'c++20']
STDNUM = {'c++11': '11', 'c++14': '14', 'c++17': '17', 'c++20': '20'}
CATS = ['int', 'pod', 'tr', 'ntr', 'ntrx']
ELEM = {'tr', 'ntr', 'ntrx'}
SRC = 'memalgo_harness.cpp'
EXTRA = ['-Wall', '-Werror=return-type']
SINGLES = ['construct_at_copy', 'construct_at_move', 'construct_at_value', 'destroy_at', 'relocate_at']
TWO = ['ucopy', 'ucopy_n', 'umove', 'umove_n']
ONE = ['destroy', 'destroy_n', 'udefault', 'udefault_n', 'uvalue', 'uvalue_n', 'ureloc', 'ureloc_n']
ITS_TWO = ['ptr', 'ra', 'bidi', 'fwd', 'mv']
ITS_ONE = ['ptr', 'ra', 'bidi', 'fwd']
# reverse random-access source iterator: compared with the standard library only (the model has no such iterator kind)
ITS_REV = ['rra']
# expected live-object delta of a completed call on an element type (n = range length)
LIVE_OK = {'construct_at_copy': 1, 'construct_at_move': 1, 'construct_at_value': 1, 'destroy_at': -1, 'relocate_at': 0,
           'ucopy': 'n', 'ucopy_n': 'n', 'umove': 'n', 'umove_n': 'n', 'destroy': '-n', 'destroy_n': '-n',
           'udefault': 'n', 'udefault_n': 'n', 'uvalue': 'n', 'uvalue_n': 'n', 'ureloc': 0, 'ureloc_n': 0}
SOURCES_STAY_ALIVE = {'umove', 'umove_n', 'ureloc', 'ureloc_n', 'relocate_at', 'ucopy', 'ucopy_n', 'construct_at_copy',
                      'construct_at_move'}

SAMPLE_KEYS = {('c++11', 'ucopy_n T=ntr it=fwd n=3 k=2'), ('c++14', 'umove_n T=ntrx it=ptr n=4 k=3'),
               ('c++17', 'ureloc_n T=ntrx it=bidi n=3 k=2'), ('c++20', 'uvalue_n T=tr it=ra n=5 k=4'),
               ('c++11', 'ureloc T=tr it=ptr n=3 k=0'), ('c++14', 'ucopy T=ntrx it=mv n=3 k=2')}

def max_n(tier):
    return 8 if tier == 'thorough' else 6

def grid(maxn):
    """the declared grid of one (standard): set of case keys, written independently of harness and model"""
    keys = set()
    for cat in CATS:
        for alg in SINGLES:
            for k in (0, 1):
                keys.add(f'{alg} T={cat} it=ptr n=1 k={k}')
        for algs, its in ((TWO, ITS_TWO), (ONE, ITS_ONE), (TWO + ['ureloc', 'ureloc_n'], ITS_REV)):
            for alg in algs:
                for it in its:
                    for n in range(maxn + 1):
                        for k in range(n + 1):
                            keys.add(f'{alg} T={cat} it={it} n={n} k={k}')
    return keys

def key_fields(key):
    t = key.split()
    d = dict(x.split('=') for x in t[1:])
    return t[0], d['T'], d['it'], int(d['n']), int(d['k'])

def compile_cmd(std, v, out=None):
    out = out or os.path.join(C.BUILD, 'c15_replay_harness')
    flags = [f'-std={std}', '-O1', '-g', '-I' + C.INCLUDE, '-I' + C.HARNESS_DIR, '-DAMC_VERIF'] + C.SAN + EXTRA + [f'-DVCAT={v}']
    return 'g++ ' + ' '.join(shlex.quote(f) for f in flags) + ' ' + os.path.join(C.HARNESS_DIR, SRC) + ' -o ' + out

def build_all(stds=STDS, cats=range(len(CATS))):
    jobs = [dict(src=SRC, defs=[f'VCAT={v}'], std=std, extra=EXTRA, name=f'memalgo_{STDNUM[std]}_{CATS[v]}')
            for std in stds for v in cats]
    res = C.build_many(jobs)
    out = {}
    i = 0
    for std in stds:
        for v in cats:
            out[(std, v)] = res[i]
            i += 1
    return out

# Source iterators whose operator* returns a prvalue / proxy (counting iterators, std::vector<bool>::iterator) are outside the
# property's declared grid {pointer, random access, bidirectional, forward, move_iterator}. The pre-C++17 amc::uninitialized_copy
# is ill-formed for them while std:: (and the C++17 alias) accept them: a genuine divergence that the probe below records in
# the evidence. Set to True (and list finding 'V20' for C15 in known_findings.json) to have it reported as a finding.
PRVALUE_PROBE_IS_VIOLATION = False

def prvalue_probe():
    """{std: 'ok' | 'ill-formed: <first error>' | 'wrong result'}"""
    res = C.build_many([dict(src='memalgo_probe_prvalue.cpp', defs=[], std=std, opt='-O0', san=False, extra=['-g0'],
                             name=f'memalgo_probe_{STDNUM[std]}') for std in STDS])
    out = {}
    for std, (path, log) in zip(STDS, res):
        if path is None:
            errs = [l for l in log.splitlines() if 'error' in l]
            out[std] = 'ill-formed: ' + (errs[0].strip()[-160:] if errs else 'compiler failed')
        else:
            p = C.sh([path])
            out[std] = 'ok' if p.returncode == 0 and 'ok' in p.stdout else 'wrong result'
    return out

def run_bin(path, maxn, only=None, trace=False):
    args = [path, str(maxn), only or '-'] + (['trace'] if trace else [])
    env = dict(os.environ, ASAN_OPTIONS='detect_leaks=1:abort_on_error=0', UBSAN_OPTIONS='print_stacktrace=1')
    try:
        p = subprocess.run(args, capture_output=True, text=True, env=env, timeout=600)
        return p.returncode, p.stdout, p.stderr
    except subprocess.TimeoutExpired as e:
        return -9, (e.stdout or b'').decode(errors='replace') if isinstance(e.stdout, bytes) else (e.stdout or ''), 'timeout'

def parse_harness(text):
    """key -> (observation, extra)"""
    d = {}
    for l in text.splitlines():
        if not l.startswith('C15 '):
            continue
        try:
            key, rest = l[4:].split(' | ', 1)
            obs, extra = rest.split(' ;; ', 1)
        except ValueError:
            d['<unparsable> ' + l[:80]] = (l, '')
            continue
        d[key] = (obs, extra)
    return d

def run_model(maxn):
    """returns (dict (stdnum, key) -> observation, error text)"""
    tpl = open(os.path.join(os.path.dirname(os.path.abspath(__file__)), 'C15_model_driver.lean.in')).read()
    os.makedirs(C.BUILD, exist_ok=True)
    path = os.path.join(C.BUILD, f'c15_model_{os.getpid()}.lean')
    with open(path, 'w') as f:
        f.write(tpl.replace('@MAXN@', str(maxn)))
    try:
        with C.Lock('lean'):
            p = C.sh(['lake', 'env', 'lean', '--run', path], cwd=C.LEAN)
    finally:
        try:
            os.remove(path)
        except OSError:
            pass
    d = {}
    for l in p.stdout.splitlines():
        if not l.startswith('M ') or ' | ' not in l:
            continue
        _, stdn, rest = l.split(' ', 2)
        key, obs = rest[4:].split(' | ', 1)
        d[(stdn, key)] = obs
    if p.returncode != 0 or 'M-END' not in p.stdout:
        return d, (p.stderr + p.stdout[-400:])[-1500:] or 'model driver did not finish'
    return d, ''

def obs_match(model, impl):
    """textual equality, except that `*` in a slot list of the model (indeterminate value / lifetime of a trivial type
    that cannot be observed) matches anything"""
    if model == impl:
        return True
    mt, ht = model.split(' '), impl.split(' ')
    if len(mt) != len(ht):
        return False
    for a, b in zip(mt, ht):
        if a == b:
            continue
        ka, _, va = a.partition('=')
        kb, _, vb = b.partition('=')
        if ka != kb or ka not in ('dst', 'src'):
            return False
        xa, xb = va.split(','), vb.split(',')
        if len(xa) != len(xb):
            return False
        for p, q in zip(xa, xb):
            if p != q and p != '*':
                return False
    return True

def obs_fields(obs):
    return dict(x.split('=', 1) for x in obs.split(' '))

def ledger_check(key, obs):
    """the harness's own ledgers, independent of the model. returns list of complaints"""
    alg, cat, it, n, k = key_fields(key)
    try:
        f = obs_fields(obs)
        dst, src = f['dst'].split(','), f['src'].split(',')
        live = int(f['live'])
    except Exception:
        return ['unparsable observation']
    out = []
    if f['faults'] != '-':
        out.append('lifetime faults: ' + f['faults'])
    if len(dst) != n + 1 or len(src) != n + 1:
        out.append('slot lists do not have n+1 entries')
        return out
    if cat in ELEM:
        if dst[n] != '-':
            out.append('guard slot after the destination range holds an object')
        if src[n] != str(10 + n):
            out.append('guard object after the source range was touched')
        if f['exc'] == '1':
            if live != 0:
                out.append(f'live objects changed by {live:+d} across a call that threw (leak or lost object)')
            if any(x != '-' for x in dst[:n]):
                out.append('objects left in the destination after a throw')
            if alg in SOURCES_STAY_ALIVE and any(x == '-' for x in src[:n]):
                out.append('a source object is dead after a throw')
            if alg in ('destroy', 'destroy_n', 'destroy_at'):
                out.append('destroy threw')
        else:
            want = LIVE_OK[alg]
            want = n if want == 'n' else (-n if want == '-n' else want)
            if live != want:
                out.append(f'live-object delta {live:+d}, expected {want:+d}')
    else:
        if f['exc'] == '1':
            out.append('exception from a trivial type')
        if src[n] != str(10 + n):
            out.append('guard value after the source range was touched')
    return out

def case_block(std, key, impl, model, extra, notes):
    s = f'case: std={std} key={key}\n  impl : {impl}\n  model: {model}\n  extra: {extra}'
    for nn in notes:
        s += f'\n  note : {nn}'
    return s

def evaluate(ctx, maxn, stds=STDS, only=None):
    """build, run, compare. returns dict with counters and the lists of failing cases:
    failures = list of (kind, std, key, block-text); build_failures = list of (std, cat, cmd, log)"""
    R = dict(failures=[], build_failures=[], crashes=[], cases=0, lines={}, model_err='', nontrivial=0, fired={}, by_alg={}, by_std={},
             stdcmp={}, exhaustive=True, samples=[])
    cats = range(len(CATS))
    if only is not None:
        cats = [CATS.index(key_fields(only)[1])]
    t0 = time.time()
    bins = build_all(stds, cats)
    t1 = time.time()
    model, merr = run_model(maxn)
    t2 = time.time()
    R['timing'] = f'harness builds {t1 - t0:.1f}s, model driver {t2 - t1:.1f}s'
    R['model_err'] = merr
    R['model_lines'] = len(model)
    expect = grid(maxn) if only is None else {only}
    runs = {}
    with ThreadPoolExecutor(max_workers=C.JOBS) as ex:
        futs = {}
        for (std, v), (path, log) in bins.items():
            if path is None:
                R['build_failures'].append((std, CATS[v], compile_cmd(std, v), log))
                R['exhaustive'] = False
                continue
            futs[(std, v)] = ex.submit(run_bin, path, maxn, only)
        for kv, fu in futs.items():
            runs[kv] = fu.result()
    for (std, v), (rc, out, err) in sorted(runs.items()):
        cat = CATS[v]
        H = parse_harness(out)
        if rc != 0 or 'C15-END' not in out:
            # a sanitizer abort / crash: name the case it happened in
            rc2, out2, err2 = run_bin(bins[(std, v)][0], maxn, only, trace=True)
            begun = [l[10:] for l in out2.splitlines() if l.startswith('C15-BEGIN ')]
            done = set(parse_harness(out2))
            crashed = [b for b in begun if b not in done][-1:] or ['<unknown case>']
            R['crashes'].append((std, cat, crashed[0], (err or err2)[:6000]))
            R['exhaustive'] = False
        want = {k for k in expect if key_fields(k)[1] == cat}
        got = set(H)
        if got != want and rc == 0:
            R['exhaustive'] = False
            miss = sorted(want - got)[:5]
            extra_k = sorted(got - want)[:5]
            R['failures'].append(('grid', std, (miss or extra_k or ['?'])[0],
                                  f'case: std={std} key={(miss or extra_k or ["?"])[0]}\n  note : harness cases differ from the declared grid: missing {len(want - got)} {miss}, unexpected {len(got - want)} {extra_k}'))
        for key, (obs, extra) in H.items():
            if key not in want:
                continue
            R['cases'] += 1
            alg, _, it, n, k = key_fields(key)
            R['by_alg'][alg] = R['by_alg'].get(alg, 0) + 1
            R['by_std'][std] = R['by_std'].get(std, 0) + 1
            f = obs_fields(obs) if obs.startswith('exc=') else {}
            if f.get('exc') == '1':
                R['fired'][str(k)] = R['fired'].get(str(k), 0) + 1
                if n >= 2 and k >= 2:
                    R['nontrivial'] += 1
            m = re.match(r'std=(same|na|DIFF)', extra)
            sc = m.group(1) if m else '?'
            R['stdcmp'][sc] = R['stdcmp'].get(sc, 0) + 1
            mobs = model.get((STDNUM[std], key))
            notes = ledger_check(key, obs)
            kinds = []
            if it in ITS_REV:
                # no model line: the standard library on the identical set-up is the oracle (relocation needs C++17 for it)
                if sc == 'na' and f.get('exc') == '0' and std in ('c++17', 'c++20') and alg.startswith('ureloc'):
                    kinds.append('std-diff')
            elif mobs is None:
                if not merr:
                    kinds.append('model-missing')
            elif not obs_match(mobs, obs):
                kinds.append('model-diff')
            if sc == 'DIFF':
                kinds.append('std-diff')
            if notes:
                kinds.append('ledger')
            if (std, key) in SAMPLE_KEYS:
                R['samples'].append((alg, f'-std={std} {key} | {obs} ;; {extra}'))
            for kind in kinds:
                R['failures'].append((kind, std, key, case_block(std, key, obs, mobs, extra, notes)))
    return R

WHAT = {'model-diff': 'amc memory algorithm disagrees with the model (Amc.* of Model/MemAlgo.lean)',
        'std-diff': 'amc memory algorithm disagrees with the standard library on an identical set-up',
        'ledger': 'live-object ledger violated by an amc memory algorithm (leak / double destroy / dead source / lifetime fault)',
        'model-missing': 'the model produced no line for a harness case',
        'grid': 'the harness did not enumerate the declared grid'}

def order_key(f):
    kind, std, key, _ = f
    try:
        alg, cat, it, n, k = key_fields(key)
    except Exception:
        return (99, 99, std, key)
    return (n, k, std, key)

def report(ctx, R):
    for std, cat, cmd, log in R['build_failures']:
        ctx.obligation(f'build:memalgo_harness -std={std} T={cat}', False, log.strip().splitlines()[0][:200] if log.strip() else 'compiler failed')
    # one violation per standard whose build failed (the compiler message is the finding), smallest first
    seen = set()
    for std, cat, cmd, log in R['build_failures']:
        if std in seen:
            continue
        seen.add(std)
        errs = [l for l in log.splitlines() if 'error' in l][:6]
        ctx.violation(f'memory.hpp does not compile under -std={std} with -Wall -Werror=return-type: ' + (errs[0].strip()[:160] if errs else ''),
                      f'kind=build\nbuild: std={std} vcat={CATS.index(cat)}\n# command line (replay recompiles with the include path of the tree under test):\n# {cmd}\n'
                      f'--- compiler errors ---\n' + '\n'.join(errs) + f'\n--- compiler output (tail) ---\n{log[-2500:]}', found_input=True)
    for std, cat, key, err in R['crashes']:
        ctx.obligation(f'run:memalgo_harness -std={std} T={cat}', False, 'crashed in ' + key)
    if R['crashes']:
        cr = sorted(R['crashes'], key=lambda c: order_key(('crash', c[0], c[2], '')))
        std, cat, key, err = cr[0]
        i = err.find('ERROR:')
        summ = re.search(r'SUMMARY: (.*)', err)
        txt = f'kind=crash\n# {len(cr)} harness run(s) aborted; each names the case it aborted in (the cases after it in that run were not reached)\n'
        txt += '\n'.join(f'case: std={c[0]} key={c[2]}' for c in cr[:40])
        txt += f'\n--- sanitizer report of the first ---\n{err[max(i, 0):][:3500]}'
        ctx.violation(f'sanitizer abort / crash in amc memory algorithm: {len(cr)} run(s), e.g. -std={std} {key}'
                      + (': ' + summ.group(1)[:120] if summ else ''), txt, found_input=True)
    by_kind = {}
    for f in R['failures']:
        by_kind.setdefault(f[0], []).append(f)
    for kind in ('ledger', 'std-diff', 'model-diff', 'grid', 'model-missing'):
        fs = sorted(by_kind.get(kind, []), key=order_key)
        if not fs:
            continue
        ctx.obligation(f'correspondence:{kind}', False, f'{len(fs)} case(s), first: -std={fs[0][1]} {fs[0][2]}')
        stds = sorted({f[1] for f in fs})
        algs = sorted({f[2].split()[0] for f in fs})
        txt = f'kind={kind}\n# {len(fs)} failing case(s) under {stds}; algorithms {algs}; the first {min(len(fs), 40)} (smallest first):\n'
        txt += '\n'.join(f[3] for f in fs[:40])
        ctx.violation(f'{WHAT[kind]}: {len(fs)} case(s), e.g. -std={fs[0][1]} {fs[0][2]}', txt, found_input=True)
    if R['model_err']:
        ctx.obligation('model driver (lake env lean --run)', False, R['model_err'][-300:])

def run(ctx):
    t0 = time.time()
    ctx.lean(['AmcVerif.Props.C15', 'AmcVerif.Props.C15b'], need_driver=False, extra_modules=['AmcVerif.Bridge.MemAlgoBridge'])
    t1 = time.time()
    maxn = max_n(ctx.tier)
    R = evaluate(ctx, maxn)
    ctx.notes.append(f'timing: translate+lake build+audit+axioms {t1 - t0:.1f}s, {R.get("timing", "")}, run+compare {time.time() - t1:.1f}s total after lean')
    ok_builds = len(STDS) * len(CATS) - len(R['build_failures'])
    ctx.obligation(f'build:memalgo_harness x{len(STDS) * len(CATS)} (4 standards x 5 value categories, -Wall -Werror=return-type, ASan+UBSan)',
                   not R['build_failures'], f'{ok_builds} built')
    ctx.obligation('model driver evaluated the grid', not R['model_err'], R['model_err'][-300:])
    report(ctx, R)
    bad = {k for k in ('model-diff', 'std-diff', 'ledger', 'grid', 'model-missing') if any(f[0] == k for f in R['failures'])}
    ctx.obligation('correspondence: every harness line equals the model line', not (bad & {'model-diff', 'model-missing', 'grid'}) and not R['crashes'],
                   '')
    ctx.obligation('correspondence: amc == std:: wherever the standard library has the algorithm', 'std-diff' not in bad, '')
    ctx.obligation('ledgers: no leak, no double destroy, sources alive after a throw, guards untouched', 'ledger' not in bad, '')
    ctx.count('evaluations', R['cases'])
    ctx.count('traces_validated_against_impl', R['cases'] - len({(f[1], f[2]) for f in R['failures']}))
    ctx.count('model_evaluations', R['model_lines'])
    ctx.count('distinct_nontrivial', R['nontrivial'])
    ctx.coverage['exhaustive'] = bool(R['exhaustive'] and not R['model_err'])
    ctx.coverage['grid'] = (f'{len(SINGLES) + len(TWO) + len(ONE)} algorithms x n in 0..{maxn} x iterator category {ITS_TWO} '
                            f'x value category {CATS} x throw index 0..n x -std in {STDS}; {len(grid(maxn))} cases per standard')
    ctx.coverage['rule'] = ('every case of the grid is run on the real amc:: algorithm (fresh raw destination, live sources, one guard slot '
                            'after each range), on the Lean model Amc.* and, where the standard library of that -std has it, on std::; '
                            'observations (exception, returned advances, value/lifetime state of every destination and source slot from '
                            'the live-object registry, live-object delta, lifetime faults) must agree; non-trivial = range length >= 2 and '
                            'the throwing operation is the 2nd or later (at least one constructed object has to be cleaned up) and the '
                            'exception actually fired')
    ctx.coverage['fault_index_fired'] = dict(sorted(R['fired'].items(), key=lambda kv: int(kv[0])))
    ctx.coverage['cases_by_algorithm'] = R['by_alg']
    ctx.coverage['cases_by_standard'] = R['by_std']
    ctx.coverage['std_comparison'] = R['stdcmp']
    for _, s in R['samples']:
        ctx.sample(s)
    probe = prvalue_probe()
    ctx.coverage['probe_prvalue_source_iterator'] = probe
    if any(v != 'ok' for v in probe.values()):
        ctx.notes.append('outside the declared grid: a source iterator returning a prvalue/proxy (counting iterator, vector<bool>::iterator) is '
                         'rejected by amc::uninitialized_copy under ' + ', '.join(k for k, v in probe.items() if v != 'ok') +
                         ' but accepted by std:: and by the C++17 alias (MemMoveInALoop takes addressof(*first) of a temporary)')
        if PRVALUE_PROBE_IS_VIOLATION:
            ctx.violation('amc::uninitialized_copy is ill-formed for a source iterator returning a prvalue/proxy under ' +
                          ', '.join(k for k, v in probe.items() if v != 'ok'),
                          'kind=probe\n' + '\n'.join(f'{k}: {v}' for k, v in probe.items()) +
                          '\nreproducer: harness/memalgo_probe_prvalue.cpp; e.g. amc::vector<bool> v(stdVectorBool.begin(), stdVectorBool.end()); under -std=c++14',
                          found_input=True, signature={'finding': 'V20'})
    ctx.assume('a trivially copyable type has no throwing copy/move constructor; relocating a type declared trivially relocatable does not throw')
    ctx.assume('relocation from a std::move_iterator is ill-formed (destroy needs an lvalue) and is not part of the grid; input-only (single pass) iterators are not used because the algorithms require forward iterators for clean-up')
    ctx.assume('arrays as value type of construct_at / destroy_at are not exercised')
    ctx.assume('for int/pod the lifetime of a slot cannot be observed: only values of slots the model says hold an object are compared')
    ctx.notes.append(f'maxN={maxn}; harness binaries: {ok_builds}/{len(STDS) * len(CATS)}; model lines {R["model_lines"]}')
    C.prune_build_cache()

def replay(ctx, path):
    """re-run the cases / compiler command lines of a replay file against /repo's current headers.
    returns 0 if nothing fails any more, 1 otherwise"""
    text = open(path).read()
    print(text[:3000])
    rc = 0
    cmds = re.findall(r'^build: std=(\S+) vcat=(\d+)$', text, re.M)
    os.makedirs(C.BUILD, exist_ok=True)
    for std, v in cmds:
        cmd = compile_cmd(std, int(v), os.path.join(C.BUILD, f'c15_replay_harness_{os.getpid()}'))
        p = subprocess.run(cmd, shell=True, capture_output=True, text=True)
        print(f'$ {cmd}\n  exit {p.returncode}')
        if p.returncode != 0:
            print('\n'.join([l for l in p.stderr.splitlines() if 'error' in l][:8]))
            print('REPLAY: still does not compile')
            rc = 1
        else:
            print('REPLAY: compiles')
        try:
            os.remove(os.path.join(C.BUILD, f'c15_replay_harness_{os.getpid()}'))
        except OSError:
            pass
    cases = re.findall(r'^case: std=(\S+) key=(.+)$', text, re.M)
    if not cmds and not cases:
        print('replay file names an obligation that no longer checks (no concrete case)')
        return 1
    maxn = max([key_fields(k)[3] for _, k in cases if not k.startswith('<')] + [1])
    seen = set()
    if cases:
        C.lake_build(['AmcVerif.Model.MemAlgo'])
    for std, key in cases[:12]:
        if (std, key) in seen or key.startswith('<') or std not in STDS:
            continue
        seen.add((std, key))
        R = evaluate(ctx, maxn, stds=[std], only=key)
        for s2, cat, cmd, log in R['build_failures']:
            print(f'build failed: {cmd}\n{log[-1500:]}')
            rc = 1
        for s2, cat, k2, err in R['crashes']:
            print(f'REPLAY: -std={s2} {k2} still crashes\n{err[-1500:]}')
            rc = 1
        if R['model_err']:
            print('model driver failed: ' + R['model_err'][-500:])
            rc = 1
        if R['failures']:
            for f in R['failures']:
                print(f'REPLAY: still fails ({f[0]}):\n{f[3]}')
            rc = 1
        elif not R['build_failures'] and not R['crashes']:
            print(f'REPLAY: -std={std} {key}: no failure')
    return rc
