#!/usr/bin/env python3
import sys, os, random
sys.path.insert(0, os.path.dirname(__file__))
from vlib import common as C, vec as V, sets as S
def main():
    n = int(sys.argv[1]) if len(sys.argv) > 1 else 50
    cfgs = [S.SetCfg('flat', cmp='less'), S.SetCfg('flat', cmp='mod', uvec='small'), S.SetCfg('flat', cmp='stateful', uvec='fixed', cat='ntr'),
            S.SetCfg('flat', cmp='greater', uvec='std'), S.SetCfg('small', 3, 'std', cmp='less'), S.SetCfg('small', 2, 'flat', cmp='mod'),
            S.SetCfg('small', 4, 'std', cmp='greater', cat='ntr'), S.SetCfg('small', 1, 'flat', cmp='stateful'),
            S.SetCfg('flat', cmp='mix'), S.SetCfg('flat', cmp='mix', uvec='std', cat='ntr'), S.SetCfg('small', 2, 'flat', cmp='mix'), S.SetCfg('small', 3, 'std', cmp='mix'),
            S.SetCfg('flat', cmp='transp'), S.SetCfg('flat', cmp='transp', uvec='std'), S.SetCfg('small', 4, 'flat', cmp='transp'), S.SetCfg('small', 6, 'std', cmp='transp'),
            S.SetCfg('flat', cmp='selfref'), S.SetCfg('small', 3, 'flat', cmp='selfref')]
    if len(sys.argv) > 2: cfgs = [c for c in cfgs if sys.argv[2] in c.name()]
    ok, log = C.lake_build(['amcdriver'])
    if not ok: print(log[-2000:]); return
    bins, errs = S.build(cfgs)
    for e in errs: print('BUILD ERROR', e[0], e[1][-1500:])
    rng = random.Random(C.seed())
    for c in cfgs:
        if c.name() not in bins: continue
        kinds = {}; shown = 0
        for k in range(n):
            lines = S.gen_history(rng, c, 40)
            r = V.run_script(bins[c.name()], c.cfgline(), lines)
            d = S.first_diff(r)
            bad = [l for l in r.impl if 'MISMATCH' in l or 'faults=-' not in l or l.split()[1] not in ('ok', 'skip')]
            if r.impl_rc != 0:
                kinds['crash'] = kinds.get('crash', 0) + 1
                if shown < 2: shown += 1; print('== CRASH', c.name(), r.impl_err[-600:]); print('\n'.join(lines[:len(r.impl)+1][-5:]))
            elif bad:
                i = int(bad[0].split()[0]); key = 'oracle:' + lines[i].split()[0]
                kinds[key] = kinds.get(key, 0) + 1
                if shown < 3: shown += 1; print('== ORACLE', c.name(), lines[i], '\n  prev', r.impl[i-1] if i else '', '\n  ', bad[0])
            elif d is not None:
                key = 'diff:' + (lines[d].split()[0] if d < len(lines) else '?')
                kinds[key] = kinds.get(key, 0) + 1
                if shown < 3:
                    shown += 1; print('== DIFF', c.name(), lines[d] if d < len(lines) else '')
                    if d: print('  prev :', r.impl[d-1])
                    print('  impl :', r.impl[d] if d < len(r.impl) else None); print('  model:', r.model[d] if d < len(r.model) else None)
        print(c.name(), kinds)
main()
