"""Vector side of the correspondence check: configurations, script generators, running the real containers
(harness/vec_harness.cpp) and the Lean model (lean/Driver) on the same scripts, diffing, shrinking."""
import os, random, subprocess
from . import common as C

ST_C = {'U8': 'uint8_t', 'U16': 'uint16_t', 'U32': 'uint32_t', 'U64': 'uint64_t', 'I8': 'int8_t', 'I16': 'int16_t', 'I32': 'int32_t', 'I64': 'int64_t'}
ST_MAX = {'U8': 255, 'U16': 65535, 'U32': 2**32 - 1, 'U64': 2**64 - 1, 'I8': 127, 'I16': 32767, 'I32': 2**31 - 1, 'I64': 2**63 - 1}
FL = {'fixed': 0, 'std': 1, 'small': 2}
CAT = {'tc': 0, 'tr': 1, 'ntr': 2}

class VecCfg:
    def __init__(self, fl, n, st, cat, alloc=0, pool=3, partner=None, pool2=1):
        self.fl, self.n, self.st, self.cat, self.alloc, self.pool = fl, n, st, cat, alloc, pool
        self.partner = partner      # (fl, n, st, alloc) of the partner vector type for swap2
        self.pool2 = pool2 if partner else 0
    def name(self):
        base = f'{self.fl}{self.n}_{self.st}_{self.cat}_a{self.alloc}'
        if self.partner:
            f2, n2, s2, a2 = self.partner
            base += f'__{f2}{n2}_{s2}_a{a2}'
        return base
    def defs(self):
        d = [f'CFG_FL={FL[self.fl]}', f'CFG_N={self.n}', f'CFG_ST={ST_C[self.st]}', f'CFG_CAT={CAT[self.cat]}',
             f'CFG_ALLOC={self.alloc}']
        if self.partner:
            f2, n2, s2, a2 = self.partner
            d += [f'CFG2_FL={FL[f2]}', f'CFG2_N={n2}', f'CFG2_ST={ST_C[s2]}', f'CFG2_ALLOC={a2}']
        return d
    def cfgline(self):
        l = (f'cfg kind=vec fl={self.fl} n={self.n} st={self.st} cat={self.cat} '
             f'realloc={1 if self.alloc in (0, 2) else 0} akind={self.alloc} pool={self.pool}')
        if self.partner:
            f2, n2, s2, a2 = self.partner
            l += f' fl2={f2} n2={n2} st2={s2} realloc2={1 if a2 in (0, 2) else 0} akind2={a2} pool2={self.pool2}'
        return l
    def kmax(self):
        return ST_MAX[self.st]
    def maxsize(self):
        return self.n if self.fl == 'fixed' else self.kmax()

def build(cfgs):
    """build the harness binaries of the given configurations; returns dict name -> path, list of errors"""
    jobs = [dict(src='vec_harness.cpp', defs=c.defs(), name='vec_' + c.name()) for c in cfgs]
    res = C.build_many(jobs)
    bins, errs = {}, []
    for c, (p, log) in zip(cfgs, res):
        if p is None:
            errs.append((c.name(), log))
        else:
            bins[c.name()] = p
    return bins, errs

# ------------------------------------------------------------------------------------------------------
# script generation (every random choice comes from the rng handed in)
# ------------------------------------------------------------------------------------------------------
def vals(rng, k):
    return ','.join(str(rng.randrange(1, 100)) for _ in range(k)) if k else '-'

class Sim:
    """list-level prediction of the sizes, used only to keep most generated operations valid"""
    def __init__(self, cfg):
        self.cfg = cfg
        self.sz = [0] * cfg.pool
    def room(self, c):
        return self.cfg.maxsize() - self.sz[c]

def gen_history(rng, cfg, nops, soft_cap=24, p_over=0.03, allow_alias=True, allow_input_it=True, ops_filter=None, strict=False):
    """random operation history over the pool. Sizes mostly stay under soft_cap; with probability p_over an
    operation deliberately exceeds the hard limit (fixed capacity / size_type maximum) when that limit is near."""
    sim = Sim(cfg)
    lines = []
    P = cfg.pool
    W = [('push', 10), ('pushm', 4), ('pushs', 3), ('emb', 5), ('embs', 2), ('ins', 8), ('insm', 3), ('inss', 4),
         ('insn', 6), ('insns', 4), ('insr', 6), ('insri', 2), ('emp', 5), ('emps', 3), ('empa', 2), ('era', 7), ('eran', 6),
         ('pop', 4), ('popv', 2), ('clr', 2), ('asn', 3), ('asns', 2), ('asr', 3), ('asri', 1), ('rsz', 4),
         ('rszv', 3), ('rszs', 1), ('rsv', 3), ('shr', 3), ('apr', 3), ('apri', 1), ('apn', 2), ('apv', 2),
         ('apvs', 1), ('cpy', 3), ('mov', 4), ('swp', 4), ('cct', 2), ('mct', 3), ('at', 2), ('cmp', 2)]
    if not allow_alias:
        W = [w for w in W if not w[0].endswith('s') or w[0] in ('ins',)]
        W = [w for w in W if w[0] not in ('pushs', 'embs', 'inss', 'insns', 'emps', 'empa', 'asns', 'rszs', 'apvs')]
    if not allow_input_it:
        W = [w for w in W if w[0] not in ('insri', 'asri', 'apri')]
    if ops_filter:
        W = [w for w in W if ops_filter(w[0])]
    names = [w[0] for w in W]; weights = [w[1] for w in W]
    hard = cfg.maxsize()
    for _ in range(nops):
        op = rng.choices(names, weights)[0]
        c = rng.randrange(P)
        d = rng.randrange(P)
        sz = sim.sz[c]
        cap = min(soft_cap, hard)
        over = rng.random() < p_over and hard <= 300
        km = cfg.kmax()
        def count(maxextra):
            """a count that keeps size within the soft cap (or exceeds the hard limit when `over`)"""
            if over:
                return min(km, hard - sz + rng.randrange(1, 3))
            room = max(0, cap - sz)
            return rng.randrange(0, min(maxextra, room) + 1)
        p = rng.randrange(0, 64)
        if strict and sz >= cap and op in ('push', 'pushm', 'emb', 'pushs', 'embs', 'ins', 'insm', 'emp', 'inss', 'emps', 'empa'):
            op = 'pop'
        if strict and op == 'rsv':
            lines.append(f'rsv {c} {rng.randrange(0, cap + 1)}'); continue
        if op in ('push', 'pushm', 'emb'):
            if sz >= cap and not over and hard > cap:
                op = 'pop'
            else:
                lines.append(f'{op} {c} {rng.randrange(1,100)}'); sim.sz[c] = min(sz + 1, hard); continue
        if op in ('pushs', 'embs'):
            lines.append(f'{op} {c} {p}')
            if sz > 0: sim.sz[c] = min(sz + 1, hard)
            continue
        if op in ('ins', 'insm', 'emp'):
            lines.append(f'{op} {c} {p} {rng.randrange(1,100)}'); sim.sz[c] = min(sz + 1, hard); continue
        if op in ('inss', 'emps', 'empa'):
            lines.append(f'{op} {c} {p} {rng.randrange(0,64)}')
            if sz > 0: sim.sz[c] = min(sz + 1, hard)
            continue
        if op == 'insn':
            k = count(5); lines.append(f'insn {c} {p} {k} {rng.randrange(1,100)}')
            if sz + k <= hard: sim.sz[c] = sz + k
            continue
        if op == 'insns':
            k = count(5); lines.append(f'insns {c} {p} {k} {rng.randrange(0,64)}')
            if sz > 0 and sz + k <= hard: sim.sz[c] = sz + k
            continue
        if op in ('insr', 'insri'):
            k = count(6); lines.append(f'{op} {c} {p} {vals(rng, k)}')
            if sz + k <= hard: sim.sz[c] = sz + k
            continue
        if op == 'era':
            lines.append(f'era {c} {p}')
            if sz > 0: sim.sz[c] = sz - 1
            continue
        if op == 'eran':
            q = rng.randrange(0, 64)
            if rng.random() < 0.25: q = 0       # empty range in the middle
            pp = p % (sz + 1); n = q % (sz - pp + 1)
            lines.append(f'eran {c} {p} {q}'); sim.sz[c] = sz - n; continue
        if op in ('pop', 'popv'):
            lines.append(f'{op} {c}')
            if sz > 0: sim.sz[c] = sz - 1
            continue
        if op == 'clr':
            lines.append(f'clr {c}'); sim.sz[c] = 0; continue
        if op in ('asn', 'rszv'):
            k = min(km, hard + rng.randrange(1, 3)) if over else rng.randrange(0, cap + 1)
            lines.append(f'{op} {c} {k} {rng.randrange(1,100)}')
            if k <= hard: sim.sz[c] = k
            continue
        if op in ('asns', 'rszs'):
            k = rng.randrange(0, cap + 1)
            lines.append(f'{op} {c} {k} {rng.randrange(0,64)}')
            if sz > 0: sim.sz[c] = k
            continue
        if op in ('asr', 'asri'):
            k = hard + 1 if (over and hard < 40) else rng.randrange(0, min(cap, 12) + 1)
            lines.append(f'{op} {c} {vals(rng, k)}')
            if k <= hard: sim.sz[c] = k
            continue
        if op == 'rsz':
            k = min(km, hard + rng.randrange(1, 3)) if over else rng.randrange(0, cap + 1)
            lines.append(f'rsz {c} {k}')
            if k <= hard: sim.sz[c] = k
            continue
        if op == 'rsv':
            k = min(km, hard + 1) if (over and hard < 300) else rng.randrange(0, min(2 * cap, hard) + 1)
            lines.append(f'rsv {c} {k}'); continue
        if op == 'shr':
            lines.append(f'shr {c}'); continue
        if op in ('apr', 'apri'):
            k = count(6); lines.append(f'{op} {c} {vals(rng, k)}')
            if sz + k <= hard: sim.sz[c] = sz + k
            continue
        if op == 'apn':
            k = count(4); lines.append(f'apn {c} {k}')
            if sz + k <= hard: sim.sz[c] = sz + k
            continue
        if op == 'apv':
            k = count(4); lines.append(f'apv {c} {k} {rng.randrange(1,100)}')
            if sz + k <= hard: sim.sz[c] = sz + k
            continue
        if op == 'apvs':
            k = count(4); lines.append(f'apvs {c} {k} {rng.randrange(0,64)}')
            if sz > 0 and sz + k <= hard: sim.sz[c] = sz + k
            continue
        if op in ('cpy', 'cct'):
            lines.append(f'{op} {c} {d}')
            if c != d or op == 'cpy': sim.sz[c] = sim.sz[d]
            continue
        if op in ('mov', 'mct'):
            lines.append(f'{op} {c} {d}')
            if c != d: sim.sz[c] = sim.sz[d]; sim.sz[d] = 0
            continue
        if op == 'swp':
            lines.append(f'swp {c} {d}')
            if c != d: sim.sz[c], sim.sz[d] = sim.sz[d], sim.sz[c]
            continue
        if op == 'at':
            lines.append(f'at {c} {rng.randrange(0, sz + 2)}'); continue
        if op == 'cmp':
            lines.append(f'cmp {c} {d}'); continue
    lines.append('new')
    return lines

# ------------------------------------------------------------------------------------------------------
# running and diffing
# ------------------------------------------------------------------------------------------------------
class Obs:
    __slots__ = ('idx', 'res', 'ret', 'conts', 'al', 'blocks', 'live', 'oracle', 'faults', 'raw', 'ev', 'maxsz')

def parse_line(line):
    o = Obs(); o.raw = line
    body, _, tail = line.partition(' # ')
    parts = [p.strip() for p in body.split(' | ')]
    head = parts[0].split()
    o.idx = int(head[0]); o.res = head[1]; o.ret = head[2][4:] if len(head) > 2 else '-'
    o.conts = []
    for p in parts[1:-1]:
        f = p.split(':')
        if len(f) == 4 and not p.startswith('!'):
            o.conts.append((int(f[0]), int(f[1]), int(f[2]), f[3]))
        else:
            o.conts.append(p)
    last = dict(kv.split('=') for kv in parts[-1].split())
    o.al = tuple(int(x) for x in last['al'].split(','))
    o.blocks = int(last['blocks']); o.live = last['live']
    o.oracle = 'ok'; o.faults = '-'; o.ev = None; o.maxsz = None
    if tail:
        t = dict(kv.split('=', 1) for kv in tail.split())
        o.oracle = t.get('oracle', 'ok'); o.faults = t.get('faults', '-')
        o.ev = tuple(int(x) for x in t['ev'].split(',')) if 'ev' in t else None
        o.maxsz = tuple(int(x) for x in t['maxsz'].split(',')) if 'maxsz' in t else None
    return o

class Run:
    def __init__(self):
        self.impl = []; self.model = []; self.impl_rc = 0; self.impl_err = ''; self.model_rc = 0; self.model_err = ''

def run_script(binpath, cfgline, lines, model=True, timeout=120):
    text = cfgline + '\n' + '\n'.join(lines) + '\n'
    r = Run()
    env = dict(os.environ, ASAN_OPTIONS='detect_leaks=1:abort_on_error=0:exitcode=97', UBSAN_OPTIONS='print_stacktrace=0')
    try:
        p = subprocess.run([binpath], input=text, capture_output=True, text=True, timeout=timeout, env=env)
        r.impl_rc = p.returncode; r.impl_err = p.stderr[-3000:]; r.impl = p.stdout.splitlines()
    except subprocess.TimeoutExpired:
        r.impl_rc = -9; r.impl_err = 'timeout'
    if model:
        try:
            p = subprocess.run([C.DRIVER], input=text, capture_output=True, text=True, timeout=timeout)
            r.model_rc = p.returncode; r.model_err = p.stderr[-2000:]; r.model = p.stdout.splitlines()
        except subprocess.TimeoutExpired:
            r.model_rc = -9; r.model_err = 'timeout'
    return r

def first_diff(r, fields=None):
    """index of the first observation on which implementation and model differ (None = none)."""
    n = min(len(r.impl), len(r.model))
    for i in range(n):
        a = r.impl[i].partition(' # ')[0].strip(); b = r.model[i].strip()
        if fields is None:
            if a != b:
                return i
        else:
            oa, ob = parse_line(r.impl[i]), parse_line(r.model[i])
            if fields(oa) != fields(ob):
                return i
    if len(r.impl) != len(r.model):
        return n
    return None

def ddmin(lines, fails, max_runs=400):
    """delta debugging over script lines; `fails(lines)` -> bool"""
    runs = [0]
    def test(ls):
        runs[0] += 1
        return fails(ls)
    # shortest failing prefix first
    lo, hi = 1, len(lines)
    while lo < hi and runs[0] < max_runs:
        mid = (lo + hi) // 2
        if test(lines[:mid]):
            hi = mid
        else:
            lo = mid + 1
    cur = lines[:hi]
    n = 2
    while len(cur) >= 2 and runs[0] < max_runs:
        chunk = max(1, len(cur) // n)
        reduced = False
        for i in range(0, len(cur), chunk):
            cand = cur[:i] + cur[i + chunk:]
            if cand and test(cand):
                cur = cand; n = max(n - 1, 2); reduced = True
                break
        if not reduced:
            if chunk == 1:
                break
            n = min(len(cur), n * 2)
    return cur
