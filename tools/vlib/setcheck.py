"""Generic set correspondence run used by the set properties (C03, C04, C11, C12, C19)."""
import random
from . import common as C, vec as V, sets as S

def oracle_pred(cfg, lines, obs):
    out = []
    for o in obs:
        if o.oracle.startswith('MISMATCH'):
            out.append((o.idx, 'std::set oracle: ' + o.oracle))
        if o.res not in ('ok', 'skip'):
            out.append((o.idx, 'operation failed: ' + o.res))
        if o.faults != '-':
            out.append((o.idx, 'lifetime fault: ' + o.faults))
    return out

class Failure:
    def __init__(self, kind, cfg, lines, idx, msg, run):
        self.kind, self.cfg, self.lines, self.idx, self.msg, self.run = kind, cfg, lines, idx, msg, run

def evaluate(cfg, binpath, lines, preds, need_model=True, use_cmps=True):
    r = V.run_script(binpath, cfg.cfgline(), lines, model=need_model)
    if r.impl_rc != 0:
        return Failure('crash', cfg, lines, len(r.impl), f'harness exit {r.impl_rc}: ' + r.impl_err[-600:], r), r, []
    try:
        obs = [S.parse_line(l) for l in r.impl]
    except Exception as e:
        return Failure('crash', cfg, lines, 0, 'unparsable harness output: ' + str(e), r), r, []
    for p in preds:
        bad = p(cfg, lines, obs)
        if bad:
            i, msg = bad[0]
            return Failure('oracle:' + p.__name__, cfg, lines, i, msg, r), r, obs
    if need_model:
        if r.model_rc != 0:
            return Failure('model-crash', cfg, lines, len(r.model), 'driver exit ' + str(r.model_rc), r), r, obs
        d = S.first_diff(r, use_cmps)
        if d is not None:
            return Failure('diff', cfg, lines, d, 'implementation and model differ', r), r, obs
    return None, r, obs

def replay_text(f):
    out = ['# script (first line is the configuration; `# defs=` gives the harness build)', f.cfg.cfgline(),
           '# defs=' + ' '.join(f.cfg.defs())] + f.lines
    out.append(f'# --- kind={f.kind} at operation {f.idx}: {f.msg}')
    r = f.run
    if r is not None:
        lo = max(0, f.idx - 2)
        for i in range(lo, min(len(r.impl), f.idx + 1)):
            out.append('# impl : ' + r.impl[i])
        for i in range(lo, min(len(r.model), f.idx + 1)):
            out.append('# model: ' + r.model[i])
        if r.impl_err and f.kind == 'crash':
            out.append('# stderr: ' + r.impl_err[-1500:].replace('\n', '\n#   '))
    return '\n'.join(out)

def run(ctx, cfgs, gen, nscripts, preds=(oracle_pred,), need_model=True, use_cmps=True, nontrivial=None, label='set history',
        max_report=3):
    bins, errs = S.build(cfgs)
    for name, log in errs:
        ctx.obligation('harness-build:' + name, False, log[-600:])
        ctx.violation('set harness does not compile against /repo/include: ' + name, log[-3000:], found_input=False)
    rng = random.Random(ctx.seed * 104729 + hash(label) % 1000)
    reported = 0
    seen = set()
    for cfg in cfgs:
        if cfg.name() not in bins:
            continue
        b = bins[cfg.name()]
        fails_here = 0
        for k in range(nscripts):
            lines = gen(rng, cfg, k)
            f, r, obs = evaluate(cfg, b, lines, preds, need_model, use_cmps)
            ctx.count('evaluations', max(1, len(lines)))
            ctx.count('traces_validated_against_impl', 1 if need_model else 0)
            h = C.sha(cfg.name(), '\n'.join(lines))
            if h not in seen:
                seen.add(h)
                if nontrivial is None or nontrivial(cfg, lines, obs):
                    ctx.count('distinct_nontrivial')
            for l in lines:
                ctx.hist('op_histogram', l.split()[0])
            if k == 0:
                ctx.sample({'config': cfg.name(), 'script': lines[:12]})
            if f is not None:
                fails_here += 1
                if reported < max_report and fails_here <= 1:
                    kind = f.kind
                    def fails(ls, kind=kind, cfg=cfg, b=b):
                        g, _, _ = evaluate(cfg, b, ls, preds, need_model, use_cmps)
                        return g is not None and g.kind.split(':')[0] == kind.split(':')[0]
                    small = V.ddmin(f.lines, fails, max_runs=150)
                    g, _, _ = evaluate(cfg, b, small, preds, need_model, use_cmps)
                    g = g or f
                    ctx.violation(f'{label}: {g.kind} on {cfg.name()}: {g.msg[:200]}', replay_text(g), found_input=True)
                    reported += 1
        ctx.hist('failing_scripts_per_config', cfg.name(), fails_here)
    return reported

def replay_file(path, preds=(oracle_pred,), need_model=True, use_cmps=True):
    lines = [l.rstrip('\n') for l in open(path)]
    cfgl = [l for l in lines if l.startswith('cfg ')]
    defs = [l for l in lines if l.startswith('# defs=')]
    if not cfgl or not defs:
        print('replay file has no script (it names an obligation that no longer checks)'); print('\n'.join(lines[:40])); return 1
    d = dict(t.split('=') for t in defs[0][len('# defs='):].split())
    inv_cmp = {v: k for k, v in S.CMP.items()}; inv_uv = {v: k for k, v in S.UVEC.items()}
    cfg = S.SetCfg('flat' if d['CFG_IMPL'] == '0' else 'small', int(d['CFG_N']), 'std' if d['CFG_BACK'] == '0' else 'flat',
                   inv_uv[int(d['CFG_UVEC'])], inv_cmp[int(d['CFG_CMP'])], 'int' if d['CFG_CAT'] == '0' else 'ntr',
                   pool=int(dict(t.split('=') for t in cfgl[0].split()[1:]).get('pool', 3)), ucap=int(d.get('CFG_UCAP', 64)))
    script = [l for l in lines if l and not l.startswith('#') and not l.startswith('cfg ') and '=' not in l.split()[0] and l != '---']
    C.translate(); C.lake_build(['amcdriver'])
    bins, errs = S.build([cfg])
    if errs:
        print('harness build failed:', errs[0][1][-1500:]); return 1
    f, r, obs = evaluate(cfg, bins[cfg.name()], script, preds, need_model, use_cmps)
    for i, l in enumerate(r.impl):
        print('impl :', l)
        if need_model and i < len(r.model):
            print('model:', r.model[i])
    if f is None:
        print('REPLAY: no failure'); return 0
    print(f'REPLAY: still fails: {f.kind} at {f.idx}: {f.msg}')
    return 1
