"""Generic vector correspondence run used by the vector properties: for each configuration, run scripts through the
real containers and the Lean model, diff the property's fields, evaluate the property's oracle predicates on the
implementation transcript, shrink whatever fails and report it through ctx.violation()."""
import random
from . import common as C, vec as V

def default_fields(o):
    return (o.res, o.ret, tuple(o.conts), o.al, o.blocks, o.live)

def corr_fields_basic(o):
    """what C01 compares: result, return value, sizes and element sequences (not capacities, not allocator calls)"""
    return (o.res, o.ret, tuple((c[0], c[3]) if isinstance(c, tuple) else c for c in o.conts))

def oracle_pred(cfg, lines, obs):
    """std::vector oracle and lifetime ledgers of the harness"""
    out = []
    for o in obs:
        if o.oracle.startswith('MISMATCH'):
            out.append((o.idx, 'std::vector oracle: ' + o.oracle))
    return out

def fault_pred(cfg, lines, obs):
    out = []
    for o in obs:
        if o.faults != '-':
            out.append((o.idx, 'lifetime/ledger fault: ' + o.faults))
        if o.idx < len(lines) and lines[o.idx] == 'new' and o.ret not in ('blocks=0,live=0', '-'):
            out.append((o.idx, 'left over at drain: ' + o.ret))
    return out

class Failure:
    def __init__(self, kind, cfg, lines, idx, msg, run):
        self.kind, self.cfg, self.lines, self.idx, self.msg, self.run = kind, cfg, lines, idx, msg, run

def evaluate(cfg, binpath, lines, fields, preds, need_model=True):
    """returns (Failure | None, run, obs)"""
    r = V.run_script(binpath, cfg.cfgline(), lines, model=need_model)
    if r.impl_rc != 0:
        return Failure('crash', cfg, lines, len(r.impl), f'harness exit {r.impl_rc}: ' + r.impl_err[-600:], r), r, []
    try:
        obs = [V.parse_line(l) for l in r.impl]
    except Exception as e:
        return Failure('crash', cfg, lines, 0, 'unparsable harness output: ' + str(e), r), r, []
    for p in preds:
        bad = p(cfg, lines, obs)
        if bad:
            i, msg = bad[0]
            return Failure('oracle:' + p.__name__, cfg, lines, i, msg, r), r, obs
    if need_model:
        if r.model_rc != 0:
            return Failure('model-crash', cfg, lines, len(r.model), 'driver exit ' + str(r.model_rc) + ' ' + r.model_err[-300:], r), r, obs
        d = V.first_diff(r, fields)
        if d is not None:
            return Failure('diff', cfg, lines, d, 'implementation and model differ', r), r, obs
    return None, r, obs

def shrink(cfg, binpath, f, fields, preds, need_model):
    kind = f.kind
    def fails(ls):
        g, _, _ = evaluate(cfg, binpath, ls, fields, preds, need_model)
        return g is not None and g.kind.split(':')[0] == kind.split(':')[0]
    body = [l for l in f.lines]
    small = V.ddmin(body, fails, max_runs=150)
    g, r, obs = evaluate(cfg, binpath, small, fields, preds, need_model)
    return g if g is not None else f

def replay_text(f):
    lines = [f.cfg.cfgline()] + f.lines
    out = ['# script (first line is the configuration; run: python3 tools/check.py --property <id> --replay <this file>)']
    out += lines
    out.append('# --- what failed')
    out.append(f'# kind={f.kind} at operation {f.idx}: {f.msg}')
    r = f.run
    if r is not None:
        lo = max(0, f.idx - 2)
        for i in range(lo, min(len(r.impl), f.idx + 1)):
            out.append('# impl : ' + r.impl[i])
        for i in range(lo, min(len(r.model), f.idx + 1)):
            out.append('# model: ' + r.model[i])
        if r.impl_err and f.kind == 'crash':
            out.append('# stderr: ' + r.impl_err[-1500:].replace('\n', '\n#   '))
    return '\n'.join(out)

def run(ctx, cfgs, gen, nscripts, fields=default_fields, preds=(oracle_pred, fault_pred), need_model=True,
        nontrivial=None, label='history', signature=None, max_report=3):
    """gen(rng, cfg, k) -> list of script lines. Returns number of failures reported."""
    bins, errs = V.build(cfgs)
    for name, log in errs:
        ctx.obligation('harness-build:' + name, False, log[-600:])
        ctx.violation('harness does not compile against /repo/include: ' + name, log[-3000:], found_input=False)
    rng = random.Random(ctx.seed * 7919 + hash(label) % 1000)
    reported = 0
    seen = set()
    known_seen = set()
    for cfg in cfgs:
        if cfg.name() not in bins:
            continue
        b = bins[cfg.name()]
        fails_here = 0; shrunk_here = 0; known_here = 0
        for k in range(nscripts):
            lines = gen(rng, cfg, k)
            h = C.sha(cfg.name(), '\n'.join(lines))
            f, r, obs = evaluate(cfg, b, lines, fields, preds, need_model)
            ctx.count('evaluations', max(1, len(lines)))
            ctx.count('traces_validated_against_impl', 1 if need_model else 0)
            if h not in seen:
                seen.add(h)
                if nontrivial is None or nontrivial(cfg, lines, obs):
                    ctx.count('distinct_nontrivial')
            for l in lines:
                ctx.hist('op_histogram', l.split()[0])
            for o in obs:
                if o.res.startswith('exc:'):
                    ctx.hist('exception_kinds', o.res)
            if k == 0:
                ctx.sample({'config': cfg.name(), 'script': lines[:12]})
            if f is not None:
                fails_here += 1
                # classify first (cheap): failures matching a known finding are counted, and only the first of each is shrunk and
                # listed; every other failure is shrunk and reported (up to max_report), so that a different violation of the same
                # property is never hidden behind a known one
                sig0 = signature(f) if signature else {}
                if sig0.get('finding'):
                    ctx.hist('known_finding_hits', sig0['finding'])
                    if sig0['finding'] not in known_seen:
                        known_seen.add(sig0['finding'])
                        g = shrink(cfg, b, f, fields, preds, need_model)
                        sig = signature(g) if signature else {}
                        if not sig.get('finding'):
                            sig = sig0; g = f
                        ctx.violation(f'{label}: {g.kind} on {cfg.name()}: {g.msg[:200]}', replay_text(g), found_input=True, signature=sig)
                elif reported < max_report and shrunk_here < 4:
                    g = shrink(cfg, b, f, fields, preds, need_model)
                    sig = signature(g) if signature else {}
                    ctx.violation(f'{label}: {g.kind} on {cfg.name()}: {g.msg[:200]}', replay_text(g), found_input=True, signature=sig)
                    if not sig.get('finding'):
                        reported += 1
                    shrunk_here += 1
                else:
                    ctx.count('unreported_failures')
        ctx.hist('failing_scripts_per_config', cfg.name(), fails_here)
    return reported

def replay_file(path, fields=default_fields, preds=(oracle_pred, fault_pred), need_model=True):
    """re-run a replay file written by replay_text(); returns 0 if it no longer fails, 1 if it still does"""
    lines = [l.rstrip('\n') for l in open(path)]
    body = [l for l in lines if l and not l.startswith('#') and not l.startswith('property=') and not l.startswith('what=')
            and not l.startswith('seed=') and l != '---']
    cfgl = [l for l in body if l.startswith('cfg ')]
    if not cfgl:
        print('replay file has no script (it names an obligation that no longer checks)')
        print('\n'.join(lines[:40]))
        return 1
    kvs = dict(t.split('=') for t in cfgl[0].split()[1:])
    partner = None
    if 'fl2' in kvs:
        partner = (kvs['fl2'], int(kvs['n2']), kvs['st2'], int(kvs['akind2']) if 'akind2' in kvs else (0 if kvs.get('realloc2', '1') == '1' else 1))
    cfg = V.VecCfg(kvs['fl'], int(kvs['n']), kvs['st'], kvs['cat'], alloc=int(kvs['akind']) if 'akind' in kvs else (0 if kvs.get('realloc', '1') == '1' else 1),
                   pool=int(kvs.get('pool', 3)), partner=partner, pool2=int(kvs.get('pool2', 1)))
    script = [l for l in body if not l.startswith('cfg ')]
    C.translate(); C.lake_build(['amcdriver'])
    bins, errs = V.build([cfg])
    if errs:
        print('harness build failed:', errs[0][1][-1500:]); return 1
    f, r, obs = evaluate(cfg, bins[cfg.name()], script, fields, preds, need_model)
    for i, l in enumerate(r.impl):
        print('impl :', l)
        if need_model and i < len(r.model):
            print('model:', r.model[i])
    if f is None:
        print('REPLAY: no failure'); return 0
    print(f'REPLAY: still fails: {f.kind} at {f.idx}: {f.msg}')
    return 1
