"""Shared plumbing of the checks: paths, cached builds (keyed by a hash of /repo's headers and of our sources),
Lean build / audit / axiom listing, evidence files, violation reporting, known findings."""
import fcntl, glob, hashlib, json, os, re, shutil, subprocess, sys, time
from concurrent.futures import ThreadPoolExecutor

ROOT = os.path.abspath(os.path.join(os.path.dirname(__file__), '..', '..'))
REPO = os.environ.get('AMC_REPO', '/repo')
INCLUDE = os.path.join(REPO, 'include')
BUILD = os.path.join(ROOT, 'build')
LEAN = os.path.join(ROOT, 'lean')
EVID = os.path.join(ROOT, 'evidence')
REPLAYS = os.path.join(EVID, 'replays')
DRIVER = os.path.join(LEAN, '.lake', 'build', 'bin', 'amcdriver')
JOBS = int(os.environ.get('VERIF_JOBS', '16'))

def seed():
    try:
        return int(os.environ.get('VERIF_SEED', '12345'))
    except ValueError:
        return 12345

def sh(cmd, **kw):
    return subprocess.run(cmd, capture_output=True, text=True, **kw)

def sha(*parts):
    h = hashlib.sha256()
    for p in parts:
        h.update(p if isinstance(p, bytes) else str(p).encode())
        h.update(b'\0')
    return h.hexdigest()

def file_hash(paths):
    h = hashlib.sha256()
    for p in sorted(paths):
        h.update(p.encode()); h.update(b'\0')
        with open(p, 'rb') as f:
            h.update(f.read())
    return h.hexdigest()

def headers_hash():
    return file_hash(glob.glob(os.path.join(INCLUDE, 'amc', '*.hpp')))

class Lock:
    def __init__(self, name):
        os.makedirs(BUILD, exist_ok=True)
        self.path = os.path.join(BUILD, name + '.lock')
    def __enter__(self):
        self.f = open(self.path, 'w')
        fcntl.flock(self.f, fcntl.LOCK_EX)
        return self
    def __exit__(self, *a):
        fcntl.flock(self.f, fcntl.LOCK_UN)
        self.f.close()

# ------------------------------------------------------------------------------------------------------
# C++ harness builds
# ------------------------------------------------------------------------------------------------------
HARNESS_DIR = os.path.join(ROOT, 'harness')
SAN = ['-fsanitize=address,undefined', '-fno-sanitize-recover=all']

def build_harness(src, defs, std='c++17', opt='-O1', san=True, extra=None, compiler='g++', name=None):
    """compile harness/<src> with -D<defs> against /repo's current headers; returns (path | None, log)"""
    srcp = os.path.join(HARNESS_DIR, src)
    deps = glob.glob(os.path.join(HARNESS_DIR, '*.hpp')) + [srcp]
    flags = [f'-std={std}', opt, '-g', '-I' + INCLUDE, '-I' + HARNESS_DIR, '-DAMC_VERIF'] + (SAN if san else []) + (extra or [])
    flags += ['-D' + d for d in defs]
    key = sha(headers_hash(), file_hash(deps), compiler, ' '.join(flags))[:20]
    outdir = os.path.join(BUILD, 'h')
    os.makedirs(outdir, exist_ok=True)
    out = os.path.join(outdir, (name or os.path.splitext(src)[0]) + '_' + key)
    if os.path.exists(out):
        return out, ''
    tmp = out + f'.tmp{os.getpid()}'
    p = sh([compiler] + flags + [srcp, '-o', tmp])
    if p.returncode != 0:
        if os.path.exists(tmp):
            os.remove(tmp)
        return None, p.stderr[-4000:]
    os.replace(tmp, out)
    return out, p.stderr[-2000:]

def build_many(jobs):
    """jobs: list of kwargs for build_harness; returns list of (path, log) in order"""
    with ThreadPoolExecutor(max_workers=JOBS) as ex:
        futs = [ex.submit(build_harness, **j) for j in jobs]
        return [f.result() for f in futs]

def prune_build_cache(keep_hash=None, max_files=400):
    d = os.path.join(BUILD, 'h')
    if not os.path.isdir(d):
        return
    files = sorted((os.path.getmtime(os.path.join(d, f)), f) for f in os.listdir(d))
    for _, f in files[:-max_files]:
        try:
            os.remove(os.path.join(d, f))
        except OSError:
            pass

# ------------------------------------------------------------------------------------------------------
# Lean side
# ------------------------------------------------------------------------------------------------------
def translate():
    """regenerate lean/AmcVerif/Gen from /repo's current headers. returns dict(ok, error, files)"""
    with Lock('lean'):
        p = sh([sys.executable, os.path.join(ROOT, 'translator', 'amc2lean.py'), '--repo', REPO,
                '--out', os.path.join(LEAN, 'AmcVerif', 'Gen')])
        try:
            st = json.loads(p.stdout.strip().splitlines()[-1])
        except Exception:
            st = {'ok': False, 'error': 'translator crashed: ' + (p.stderr or p.stdout)[-1500:], 'files': {}}
        if not st.get('ok') and p.stderr:
            st['stderr'] = p.stderr[-1500:]
        # second translator: the FlatSet decision logic (flatset.hpp -> Gen/FlatSetGen.lean)
        q = sh([sys.executable, os.path.join(ROOT, 'translator', 'flatset2lean.py'), '--include', INCLUDE,
                '--out', os.path.join(LEAN, 'AmcVerif', 'Gen', 'FlatSetGen.lean')])
        try:
            st2 = json.loads(q.stdout.strip().splitlines()[-1])
        except Exception:
            st2 = {'ok': False, 'error': (q.stdout + q.stderr)[-1500:]}
        st['flatset'] = st2
        if q.returncode != 0 or not st2.get('ok'):
            st['ok'] = False
            st['error'] = (st.get('error') or '') + ' | flatset2lean: ' + (st2.get('error') or (q.stdout + q.stderr)[-800:])
        # further translators, each cached on the header hash: the public vector operations ("glue"), the element helpers of
        # amc::vec, the SmallSet decision logic. A translator that does not know a construct leaves a stub, so that no stale
        # generated file can make a bridge proof pass.
        for name, script, outname, ns in (('glue', 'glue2lean.py', 'VecGlue.lean', 'AmcVerif.Gen.Glue'),
                                          ('helpers', 'helpers2lean.py', 'VecHelpers.lean', 'AmcVerif.Gen.Helpers'),
                                          ('smallset', 'smallset2lean.py', 'SmallSetGen.lean', 'AmcVerif.Gen.SmallSet'),
                                          ('memory', 'memory2lean.py', 'MemAlgoGen.lean', 'AmcVerif.Gen.MemAlgo'),
                                          ('traits', 'traits2lean.py', 'TraitsGen.lean', 'AmcVerif.Gen.Traits')):
            gout = os.path.join(LEAN, 'AmcVerif', 'Gen', outname)
            stamp = os.path.join(BUILD, name + '.stamp')
            deps = [os.path.join(ROOT, 'translator', script), os.path.join(ROOT, 'translator', 'flatset2lean.py'),
                    os.path.join(ROOT, 'translator', 'glue2lean.py')]
            key = sha(headers_hash(), file_hash(deps))
            if os.path.exists(gout) and os.path.exists(stamp) and open(stamp).read() == key:
                st[name] = {'ok': True, 'cached': True}
                continue
            g = sh([sys.executable, os.path.join(ROOT, 'translator', script), '--include', INCLUDE, '--out', gout + '.new'])
            if g.returncode == 0 and os.path.exists(gout + '.new'):
                os.replace(gout + '.new', gout)
                open(stamp, 'w').write(key)
                st[name] = {'ok': True, 'cached': False}
            else:
                msg = (g.stderr or g.stdout)[-800:]
                open(gout, 'w').write('/- ' + script + ' FAILED on the current source: ' + msg.replace('-/', '- /') + ' -/\n'
                                      'namespace ' + ns + '\nend ' + ns + '\n')
                for f in (stamp, gout + '.new'):
                    if os.path.exists(f):
                        os.remove(f)
                st[name] = {'ok': False, 'error': msg}
                st['ok'] = False
                st['error'] = (st.get('error') or '') + ' | ' + script + ': ' + msg
        return st

def lake_build(targets):
    """lake build the given targets (incremental). returns (ok, log)"""
    with Lock('lean'):
        p = sh(['lake', 'build'] + list(targets), cwd=LEAN)
        return p.returncode == 0, (p.stdout + p.stderr)

FORBIDDEN = re.compile(r'\bsorry\b|\badmit\b|^\s*axiom\s|native_decide|bv_decide|implemented_by|\bunsafe\s|maxHeartbeats\s+0')

def strip_comments(src):
    out = []; i = 0; depth = 0; n = len(src)
    while i < n:
        if src.startswith('/-', i):
            depth += 1; i += 2; continue
        if depth and src.startswith('-/', i):
            depth -= 1; i += 2; continue
        if depth:
            if src[i] == '\n':
                out.append('\n')
            i += 1; continue
        if src.startswith('--', i):
            while i < n and src[i] != '\n':
                i += 1
            continue
        out.append(src[i]); i += 1
    return ''.join(out)

def audit_lean():
    """grep of every Lean source for forbidden constructs (comments stripped). returns list of hits"""
    hits = []
    for path in glob.glob(os.path.join(LEAN, '**', '*.lean'), recursive=True):
        if '/.lake/' in path:
            continue
        code = strip_comments(open(path).read())
        for ln, line in enumerate(code.splitlines(), 1):
            if FORBIDDEN.search(line):
                hits.append(f'{os.path.relpath(path, LEAN)}:{ln}: {line.strip()[:120]}')
    return hits

def theorems_in(module_rel):
    """names of theorems declared in a Lean file (relative to lean/), with their namespace prefix"""
    path = os.path.join(LEAN, module_rel)
    if not os.path.exists(path):
        return []
    code = strip_comments(open(path).read())
    ns = []; out = []
    for line in code.splitlines():
        m = re.match(r'\s*namespace\s+(\S+)', line)
        if m:
            ns.append(m.group(1)); continue
        m = re.match(r'\s*end\s+(\S+)', line)
        if m and ns and ns[-1] == m.group(1):
            ns.pop(); continue
        m = re.match(r'\s*(?:@\[[^\]]*\]\s*)?(?:private\s+|protected\s+)?theorem\s+(\S+)', line)
        if m:
            out.append('.'.join(ns + [m.group(1)]))
    return out

ALLOWED_AXIOMS = {'propext', 'Quot.sound', 'Classical.choice'}

def print_axioms(module, theorems):
    """returns (dict theorem -> list of axioms, log)"""
    if not theorems:
        return {}, ''
    os.makedirs(BUILD, exist_ok=True)
    tmp = os.path.join(BUILD, f'axioms_{os.getpid()}_{abs(hash(module)) % 100000}.lean')
    with open(tmp, 'w') as f:
        f.write(f'import {module}\n')
        for t in theorems:
            f.write(f'#print axioms {t}\n')
    with Lock('lean'):
        p = sh(['lake', 'env', 'lean', tmp], cwd=LEAN)
    os.remove(tmp)
    res = {}
    txt = p.stdout + p.stderr
    for m in re.finditer(r"'(\S+)' depends on axioms: \[([^\]]*)\]", txt):
        res[m.group(1)] = [a.strip() for a in m.group(2).replace('\n', ' ').split(',') if a.strip()]
    for m in re.finditer(r"'(\S+)' does not depend on any axioms", txt):
        res[m.group(1)] = []
    return res, txt

def leanchecker(module):
    with Lock('lean'):
        p = sh(['lake', 'env', 'leanchecker', module], cwd=LEAN)
    return p.returncode == 0, (p.stdout + p.stderr)[-2000:]

# ------------------------------------------------------------------------------------------------------
# evidence, violations, known findings
# ------------------------------------------------------------------------------------------------------
def known_findings():
    p = os.path.join(ROOT, 'known_findings.json')
    if not os.path.exists(p):
        return []
    return json.load(open(p)).get('findings', [])

def write_replay(pid, text):
    os.makedirs(REPLAYS, exist_ok=True)
    h = hashlib.sha256(text.encode()).hexdigest()[:12]
    path = os.path.join(REPLAYS, f'{pid}-{h}.txt')
    with open(path, 'w') as f:
        f.write(text)
    return path

def write_evidence(pid, tier, level, coverage, wall_s, violations, assumptions):
    os.makedirs(EVID, exist_ok=True)
    ev = {'property_id': pid, 'tier': tier, 'seed': seed(), 'level': level, 'coverage': coverage,
          'assumptions': assumptions, 'wall_s': round(wall_s, 2), 'violations': violations}
    with open(os.path.join(EVID, f'{pid}.json'), 'w') as f:
        json.dump(ev, f, indent=1, sort_keys=True)
