"""Set side of the correspondence check (FlatSet / SmallSet vs the Lean model vs std::set)."""
import random
from . import common as C, vec as V

CMP = {'less': 0, 'greater': 1, 'mod': 2, 'stateful': 3, 'mix': 4, 'transp': 5, 'selfref': 6}
UVEC = {'amc': 0, 'small': 1, 'fixed': 2, 'std': 3}

class SetCfg:
    def __init__(self, impl, n=3, back='std', uvec='amc', cmp='less', cat='int', pool=3, ucap=64):
        self.impl, self.n, self.back, self.uvec, self.cmp, self.cat, self.pool = impl, n, back, uvec, cmp, cat, pool
        self.ucap = ucap            # capacity of a FixedCapacityVector underlying vector
    def name(self):
        return f'{self.impl}{self.n}_{self.back}_{self.uvec}_{self.cmp}_{self.cat}' + (f'_u{self.ucap}' if self.ucap != 64 else '')
    def defs(self):
        return [f'CFG_IMPL={0 if self.impl == "flat" else 1}', f'CFG_N={self.n}', f'CFG_BACK={0 if self.back == "std" else 1}',
                f'CFG_UVEC={UVEC[self.uvec]}', f'CFG_CMP={CMP[self.cmp]}', f'CFG_CAT={0 if self.cat == "int" else 2}', f'CFG_UCAP={self.ucap}']
    def claims_tr(self):
        """expected value of the container's trivially_relocatable trait (conjunction of its parts)"""
        if self.cat != 'int' or self.cmp == 'selfref':
            return False
        if self.impl == 'flat':
            return self.uvec != 'std'
        return self.back == 'flat'
    def cfgline(self):
        return f'cfg kind=set impl={self.impl} n={self.n} cmp={self.cmp} pool={self.pool} tr={1 if self.claims_tr() else 0}'

def build(cfgs):
    jobs = [dict(src='set_harness.cpp', defs=c.defs(), name='set_' + c.name()) for c in cfgs]
    res = C.build_many(jobs)
    bins, errs = {}, []
    for c, (p, log) in zip(cfgs, res):
        if p is None:
            errs.append((c.name(), log))
        else:
            bins[c.name()] = p
    return bins, errs

def keys(rng, k, dom):
    return ','.join(str(rng.randrange(0, dom)) for _ in range(k)) if k else '-'

def gen_history(rng, cfg, nops, dom=20, ops_filter=None, bulk_max=8):
    P = cfg.pool
    W = [('ins', 12), ('insm', 4), ('emp', 4), ('insh', 8), ('emph', 3), ('insr', 6), ('insl', 1), ('era', 8), ('erap', 5),
         ('erar', 4), ('clr', 1), ('find', 5), ('has', 3), ('cnt', 2), ('mrg', 4), ('mrgx', 3), ('xfer', 4), ('extp', 2), ('swp', 2),
         ('cpy', 2), ('mov', 2), ('cmp', 3), ('iter', 3), ('eloop', 3)]
    if cfg.impl == 'flat':
        W += [('lb', 4), ('ub', 4), ('eqr', 3), ('rngc', 2)]
        if cfg.uvec != 'fixed':
            W += [('fromv', 2), ('asgv', 2), ('steal', 1)]
    if cfg.cmp == 'transp':
        W += [('hfind', 5), ('hhas', 4), ('hcnt', 6)]
        if cfg.impl == 'flat':
            W += [('hlb', 4), ('hub', 4)]
    if ops_filter:
        W = [w for w in W if ops_filter(w[0])]
    names = [w[0] for w in W]; weights = [w[1] for w in W]
    lines = []
    for _ in range(nops):
        op = rng.choices(names, weights)[0]
        c = rng.randrange(P); d = rng.randrange(P)
        v = rng.randrange(0, dom)
        if op in ('ins', 'insm', 'emp', 'era', 'find', 'has', 'cnt', 'lb', 'ub', 'eqr'):
            lines.append(f'{op} {c} {v}')
        elif op in ('hfind', 'hhas', 'hcnt', 'hlb', 'hub'):
            lines.append(f'{op} {c} {rng.randrange(0, dom // 4 + 2)}')
        elif op in ('insh', 'emph'):
            lines.append(f'{op} {c} {rng.randrange(0, 64)} {v}')
        elif op in ('insr', 'insl', 'fromv', 'asgv', 'rngc', 'mrgx'):
            k = rng.randrange(0, bulk_max + 1)
            if rng.random() < 0.15:
                k = rng.randrange(17, 40)         # longer than the introsort threshold
            if cfg.uvec == 'fixed':
                k = min(k, 10)
            lines.append(f'{op} {c} {keys(rng, k, dom)}')
        elif op == 'erap' or op == 'extp':
            lines.append(f'{op} {c} {rng.randrange(0, 64)}')
        elif op == 'erar':
            lines.append(f'{op} {c} {rng.randrange(0, 64)} {rng.randrange(0, 64) if rng.random() < 0.8 else 0}')
        elif op in ('clr', 'iter', 'steal'):
            lines.append(f'{op} {c}')
        elif op in ('mrg', 'swp', 'cpy', 'mov', 'cmp'):
            lines.append(f'{op} {c} {d}')
        elif op == 'xfer':
            lines.append(f'xfer {c} {d} {v}')
        elif op == 'eloop':
            lines.append(f'eloop {c} {rng.randrange(1, 4)}')
    lines.append('new')
    return lines

class SObs:
    __slots__ = ('idx', 'res', 'ret', 'conts', 'cmps', 'oracle', 'faults', 'raw', 'allocs')

def parse_line(line):
    o = SObs(); o.raw = line
    body, _, tail = line.partition(' # ')
    parts = [p.strip() for p in body.split(' | ')]
    head = parts[0].split()
    o.idx = int(head[0]); o.res = head[1]; o.ret = head[2][4:] if len(head) > 2 else '-'
    o.conts = []
    for p in parts[1:-1]:
        f = p.split(':')
        o.conts.append((int(f[0]), int(f[1]), f[2]))
    cm = parts[-1].split('=')[1]
    o.cmps = None if cm == '-' else int(cm)
    o.oracle = 'ok'; o.faults = '-'; o.allocs = 0
    if tail:
        t = dict(kv.split('=', 1) for kv in tail.split())
        o.oracle = t.get('oracle', 'ok'); o.faults = t.get('faults', '-')
        o.allocs = int(t.get('allocs', 0))
    return o

def first_diff(r, use_cmps=True):
    n = min(len(r.impl), len(r.model))
    for i in range(n):
        a, b = parse_line(r.impl[i]), parse_line(r.model[i])
        if (a.res, a.ret, a.conts) != (b.res, b.ret, b.conts):
            return i
        if use_cmps and b.cmps is not None and a.cmps != b.cmps:
            return i
    if len(r.impl) != len(r.model):
        return n
    return None
