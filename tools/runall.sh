#!/bin/bash
# run every claimed check once (quick tier by default) and summarise
cd "$(dirname "$0")/.."
tier=${1:-quick}
for p in $(python3 -c "import json;print(' '.join(c['property_id'] for c in json.load(open('MANIFEST.json'))['checks']))"); do
  out=$(python3 tools/check.py --property $p --tier $tier 2>&1); rc=$?
  echo "$out" | grep -E "^\[C|VIOLATION|KNOWN-FINDING" | cut -c1-220
  if [ $rc -ne 0 ] || ! echo "$out" | grep -q "^\[$p\]"; then echo "[$p] EXIT $rc"; echo "$out" | tail -3; fi
done
