#!/bin/bash
# run every claimed check once (quick tier by default) and summarise
cd "$(dirname "$0")/.."
tier=${1:-quick}
for p in $(python3 -c "import json;print(' '.join(c['property_id'] for c in json.load(open('MANIFEST.json'))['checks']))"); do
  python3 tools/check.py --property $p --tier $tier 2>&1 | grep -E "^\[C|VIOLATION|KNOWN-FINDING" | cut -c1-220
done
