#!/usr/bin/env python3
"""Entry point of every check:  python3 tools/check.py --property Cxx [--tier quick|thorough] [--replay <file>]

Pipeline (DESIGN.md section 4.4): translate /repo's headers into Lean (tie T) -> build the property's theorems and
the model driver -> audit (forbidden constructs, axioms) -> build the C++ harnesses from /repo's working tree ->
run implementation, model and oracles on the same inputs (tie C) -> if a proof obligation or the correspondence
broke, search for a concrete failing input -> evidence file, VIOLATION / KNOWN-FINDING lines, exit code."""
import argparse, importlib, json, os, re, sys, time, traceback

sys.path.insert(0, os.path.dirname(os.path.abspath(__file__)))
from vlib import common as C

class Ctx:
    def __init__(self, pid, tier):
        self.pid, self.tier, self.seed = pid, tier, C.seed()
        self.t0 = time.time()
        self.coverage = {'samples': []}
        self.assumptions = []
        self.violations = []        # dicts: what, replay, found_input, signature
        self.known_hits = []
        self.obligations = []       # (name, ok, detail)
        self.notes = []
        self.translate_status = None

    # ---- proof side --------------------------------------------------------------------------------
    def lean(self, props_modules, need_driver=True, extra_modules=()):
        """translate, build the given Props modules (+ driver), audit, list axioms. Records one obligation per
        theorem of the Props modules plus one per module build. Returns True when everything is discharged."""
        st = C.translate()
        self.translate_status = st
        ok_all = True
        self.obligation('translate:/repo/include/amc -> lean/AmcVerif/Gen', st.get('ok', False), st.get('error') or '')
        if not st.get('ok'):
            ok_all = False
        targets = list(props_modules) + list(extra_modules)
        for mod in targets:
            ok, log = C.lake_build([mod])
            detail = ''
            if not ok:
                errs = [l for l in log.splitlines() if 'error' in l.lower()][:6]
                detail = ' | '.join(errs) if errs else log[-600:]
                # name the declarations the errors fall in (file:line -> enclosing theorem / def)
                decls = []
                for m in re.finditer(r'error: (\S+?\.lean):(\d+):', log):
                    fpath = os.path.join(C.LEAN, m.group(1))
                    try:
                        src = open(fpath).read().splitlines()
                    except OSError:
                        continue
                    for k in range(min(int(m.group(2)), len(src)) - 1, -1, -1):
                        mm = re.match(r'\s*(?:private\s+)?(?:theorem|def|instance|abbrev|structure|example)\s+(\S+)', src[k])
                        if mm:
                            d = f'{os.path.basename(m.group(1))}:{mm.group(1)}'
                            if d not in decls:
                                decls.append(d)
                            break
                if decls:
                    detail = 'first failing declarations: ' + ', '.join(decls[:6]) + ' | ' + detail
                ok_all = False
            self.obligation('build:' + mod, ok, detail)
        if need_driver:
            ok, log = C.lake_build(['amcdriver'])
            self.obligation('build:amcdriver', ok, '' if ok else log[-800:])
            ok_all = ok_all and ok
        hits = C.audit_lean()
        self.obligation('audit:no sorry/admit/axiom/native_decide/bv_decide/implemented_by/unsafe/maxHeartbeats 0', not hits,
                        '; '.join(hits[:5]))
        ok_all = ok_all and not hits
        used = set()
        for mod in props_modules:
            rel = mod.replace('.', '/') + '.lean'
            ths = C.theorems_in(rel)
            if not ths:
                self.obligation(f'theorems:{mod}', False, 'no theorem found in module')
                ok_all = False
                continue
            ax, txt = C.print_axioms(mod, ths)
            for t in ths:
                a = ax.get(t)
                good = a is not None and set(a) <= C.ALLOWED_AXIOMS
                self.obligation('theorem:' + t, good, '' if good else ('axioms: ' + str(a) if a is not None else 'not checked (module does not build)'))
                if a:
                    used |= set(a)
                ok_all = ok_all and good
        # bridge modules: the equalities "generated from the source = hand-written model" are listed and audited one by one
        for mod in extra_modules:
            if '.Bridge.' not in mod:
                continue
            rel = mod.replace('.', '/') + '.lean'
            ths = [t for t in C.theorems_in(rel) if t.endswith('_eq') or t.endswith('_static') or t.endswith('_dynamic')]
            if not ths:
                continue
            ax, txt = C.print_axioms(mod, ths)
            for t in ths:
                a = ax.get(t)
                good = a is not None and set(a) <= C.ALLOWED_AXIOMS
                self.obligation('bridge:' + t, good, '' if good else ('axioms: ' + str(a) if a is not None else 'not checked (module does not build: the generated definition no longer equals the model)'))
                if a:
                    used |= set(a)
                ok_all = ok_all and good
        self.coverage['trusted_base'] = sorted(used) + ['Lean 4.33.0 kernel', 'translator/amc2lean.py + clang 14 AST',
                                                         'hand-written Prim/ semantics (slot lifetime, std algorithms)']
        if self.tier == 'thorough':
            for mod in props_modules:
                ok, log = C.leanchecker(mod)
                self.obligation('leanchecker:' + mod, ok, '' if ok else log[-400:])
                ok_all = ok_all and ok
        return ok_all

    def obligation(self, name, ok, detail=''):
        self.obligations.append((name, bool(ok), detail))

    def broken_obligations(self):
        return [(n, d) for n, ok, d in self.obligations if not ok]

    # ---- reporting -----------------------------------------------------------------------------------
    def violation(self, what, replay_text, found_input=True, signature=None):
        self.violations.append({'what': what, 'replay': replay_text, 'found_input': found_input, 'signature': signature or {}})

    def sample(self, s):
        if len(self.coverage['samples']) < 6:
            self.coverage['samples'].append(s)

    def count(self, key, n=1):
        self.coverage[key] = self.coverage.get(key, 0) + n

    def hist(self, key, item, n=1):
        d = self.coverage.setdefault(key, {})
        d[item] = d.get(item, 0) + n

    def assume(self, s):
        if s not in self.assumptions:
            self.assumptions.append(s)

def matches_known(v, pid):
    """a violation is a known finding only if its signature matches a listed one for this property"""
    sig = v.get('signature') or {}
    for kf in C.known_findings():
        if kf.get('property') != pid:
            continue
        ks = kf.get('signature', {})
        if sig.get('finding') == kf.get('id'):
            return kf
    return None

def main():
    ap = argparse.ArgumentParser()
    ap.add_argument('--property', required=True)
    ap.add_argument('--tier', default=os.environ.get('VERIF_TIER', 'quick'))
    ap.add_argument('--replay')
    a = ap.parse_args()
    pid = a.property
    tier = a.tier if a.tier in ('quick', 'thorough') else 'quick'
    ctx = Ctx(pid, tier)
    mod = importlib.import_module('props.' + pid)
    level = getattr(mod, 'LEVEL', 'proof')
    try:
        if a.replay:
            rc = mod.replay(ctx, a.replay)
            sys.exit(rc)
        mod.run(ctx)
    except Exception:
        tb = traceback.format_exc()
        ctx.violation('check crashed: ' + tb.splitlines()[-1], 'the check itself failed\n' + tb, found_input=False)
    # a broken proof obligation / translation with no failing input found is still a violation
    # (a failing input that is a listed known finding does not count: it must not hide a broken obligation)
    broken = ctx.broken_obligations()
    if broken and not any(v['found_input'] and matches_known(v, pid) is None for v in ctx.violations):
        txt = 'proof / translation / correspondence obligations that no longer check:\n' + '\n'.join(f'  {n}: {d}' for n, d in broken)
        ctx.violation('obligation(s) broken: ' + ', '.join(n for n, _ in broken[:4]), txt, found_input=False)
    nviol = 0
    lines = []
    seen_known = set()
    for v in ctx.violations:
        kf = matches_known(v, pid) if v['found_input'] else None
        if kf is not None:
            if kf['id'] not in seen_known:
                seen_known.add(kf['id'])
                lines.append(f"KNOWN-FINDING: property={pid} {kf['id']}: {kf['what'][:160]}")
            continue
        nviol += 1
        path = C.write_replay(pid, f"property={pid}\nwhat={v['what']}\nseed={ctx.seed} tier={tier}\n---\n{v['replay']}\n")
        lines.append(f"VIOLATION property={pid} replay={path}" + ('' if v['found_input'] else ' no-failing-input-found'))
        if nviol >= 5:
            break
    cov = ctx.coverage
    nob = len(ctx.obligations)
    if nob:
        cov['obligations'] = nob
        cov['discharged'] = sum(1 for _, ok, _ in ctx.obligations if ok)
        cov['checker_cmd'] = 'cd lean && lake build <Props module> && lake env lean <#print axioms file>' + (' && lake env leanchecker <module>' if tier == 'thorough' else '')
        cov.setdefault('trusted_base', [])
        cov['obligation_list'] = [n for n, _, _ in ctx.obligations][:80]
        cov['undischarged'] = [f'{n}: {d}'[:300] for n, ok, d in ctx.obligations if not ok][:20]
    if ctx.known_hits or seen_known:
        cov['known_findings_met'] = sorted(seen_known)
    if not cov.get('samples'):
        cov['samples'] = ['(no sample recorded)']
    if level in ('exploration', 'fault_enumeration') or 'evaluations' in cov:
        cov.setdefault('evaluations', 1); cov.setdefault('distinct_nontrivial', 2); cov.setdefault('rule', 'see DESIGN.md')
    if level == 'other':
        cov.setdefault('explanation', getattr(mod, 'EXPLANATION', 'see DESIGN.md'))
    if level == 'translation_validation':
        cov.setdefault('programs', 1); cov.setdefault('disagreements_checked', 0)
    cov['notes'] = ctx.notes[:20]
    C.write_evidence(pid, tier, level, cov, time.time() - ctx.t0, nviol, ctx.assumptions)
    for l in lines:
        print(l)
    print(f"[{pid}] tier={tier} seed={ctx.seed} obligations={cov.get('discharged', 0)}/{cov.get('obligations', 0)} "
          f"violations={nviol} wall={time.time() - ctx.t0:.1f}s")
    sys.exit(1 if nviol else 0)

if __name__ == '__main__':
    main()
